//! tcfacts: a rustc_private driver that dumps the *built* MIR (pre-coroutine-transform,
//! pre-optimisation) of every body of the crate under analysis as JSON lines, together with
//! crate tables (ADTs, traits, impls, constants).  It never runs any code of the crate.
//!
//! Used as RUSTC_WORKSPACE_WRAPPER: argv[1] is the real rustc path and is dropped.
//! Facts are written only for the crate named in $TCFACTS_CRATE (default `taskchampion`),
//! in one write, to $TCFACTS_OUT.

#![feature(rustc_private)]
#![allow(unreachable_patterns)]

extern crate rustc_abi;
extern crate rustc_driver;
extern crate rustc_hir;
extern crate rustc_interface;
extern crate rustc_middle;
extern crate rustc_span;

use std::fmt::Write as _;

use rustc_driver::Compilation;
use rustc_hir::def::DefKind;
use rustc_hir::def_id::{DefId, LocalDefId};
use rustc_interface::interface::Compiler;
use rustc_middle::mir::{
    self, AggregateKind, BasicBlock, Body, BorrowKind, Operand, Place, PlaceElem, Rvalue,
    StatementKind, TerminatorKind, UnwindAction,
};
use rustc_middle::ty::{self, Instance, Ty, TyCtxt, TypingEnv};
use rustc_span::{ExpnKind, Span};
use rustc_middle::ty::print::PrintTraitRefExt as _;

// ---------------------------------------------------------------------------------------
// tiny JSON writer

fn esc(s: &str, out: &mut String) {
    out.push('"');
    for c in s.chars() {
        match c {
            '"' => out.push_str("\\\""),
            '\\' => out.push_str("\\\\"),
            '\n' => out.push_str("\\n"),
            '\r' => out.push_str("\\r"),
            '\t' => out.push_str("\\t"),
            c if (c as u32) < 0x20 => {
                let _ = write!(out, "\\u{:04x}", c as u32);
            }
            c => out.push(c),
        }
    }
    out.push('"');
}

fn js(s: &str) -> String {
    let mut o = String::new();
    esc(s, &mut o);
    o
}

fn jopt(s: Option<String>) -> String {
    match s {
        Some(s) => js(&s),
        None => "null".to_string(),
    }
}

fn jarr(items: Vec<String>) -> String {
    let mut o = String::from("[");
    for (i, it) in items.iter().enumerate() {
        if i > 0 {
            o.push(',');
        }
        o.push_str(it);
    }
    o.push(']');
    o
}

struct Obj(String, bool);
impl Obj {
    fn new() -> Obj {
        Obj(String::from("{"), true)
    }
    fn raw(mut self, k: &str, v: &str) -> Obj {
        if !self.1 {
            self.0.push(',');
        }
        self.1 = false;
        esc(k, &mut self.0);
        self.0.push(':');
        self.0.push_str(v);
        self
    }
    fn s(self, k: &str, v: &str) -> Obj {
        let v = js(v);
        self.raw(k, &v)
    }
    fn n(self, k: &str, v: i128) -> Obj {
        self.raw(k, &v.to_string())
    }
    fn b(self, k: &str, v: bool) -> Obj {
        self.raw(k, if v { "true" } else { "false" })
    }
    fn end(mut self) -> String {
        self.0.push('}');
        self.0
    }
}

// ---------------------------------------------------------------------------------------

struct Cx<'tcx> {
    tcx: TyCtxt<'tcx>,
}

fn no_trim<T>(f: impl FnOnce() -> T) -> T {
    rustc_middle::ty::print::with_no_trimmed_paths!(rustc_middle::ty::print::with_crate_prefix!(
        rustc_middle::ty::print::with_forced_impl_filename_line!(f())
    ))
}

impl<'tcx> Cx<'tcx> {
    fn path(&self, did: DefId) -> String {
        rustc_middle::ty::print::with_no_trimmed_paths!(self.tcx.def_path_str(did))
    }

    fn ty_str(&self, t: Ty<'tcx>) -> String {
        rustc_middle::ty::print::with_no_trimmed_paths!(format!("{}", t))
    }

    fn span_json(&self, sp: Span) -> String {
        // user-facing location: outermost call site
        let cs = sp.source_callsite();
        let sm = self.tcx.sess.source_map();
        let lo = sm.lookup_char_pos(cs.lo());
        let hi = sm.lookup_char_pos(cs.hi());
        let file = match &lo.file.name {
            rustc_span::FileName::Real(r) => match r.local_path() {
                Some(p) => p.to_string_lossy().to_string(),
                None => format!("{:?}", lo.file.name),
            },
            other => format!("{:?}", other),
        };
        let mut o = Obj::new()
            .s("f", &file)
            .n("l", lo.line as i128)
            .n("c", lo.col.0 as i128)
            .n("el", hi.line as i128)
            .n("ec", hi.col.0 as i128);
        if sp.from_expansion() {
            let ed = sp.ctxt().outer_expn_data();
            let k = match ed.kind {
                ExpnKind::Root => "root".to_string(),
                ExpnKind::Macro(mk, name) => format!("{:?}:{}", mk, name),
                ExpnKind::AstPass(p) => format!("astpass:{:?}", p),
                ExpnKind::Desugaring(d) => format!("desugar:{:?}", d),
            };
            o = o.s("x", &k);
            // outermost macro name (walk the expansion chain)
            let mut cur = sp;
            let mut outer = k.clone();
            let mut guard = 0;
            while cur.from_expansion() && guard < 64 {
                let ed = cur.ctxt().outer_expn_data();
                outer = match ed.kind {
                    ExpnKind::Root => "root".to_string(),
                    ExpnKind::Macro(mk, name) => format!("{:?}:{}", mk, name),
                    ExpnKind::AstPass(p) => format!("astpass:{:?}", p),
                    ExpnKind::Desugaring(d) => format!("desugar:{:?}", d),
                };
                cur = ed.call_site;
                guard += 1;
            }
            o = o.s("xo", &outer);
        }
        o.end()
    }

    fn place_json(&self, body: &Body<'tcx>, p: &Place<'tcx>) -> String {
        let tcx = self.tcx;
        let mut projs = Vec::new();
        let mut pty = mir::PlaceTy::from_ty(body.local_decls[p.local].ty);
        for elem in p.projection.iter() {
            let j = match elem {
                PlaceElem::Deref => js("deref"),
                PlaceElem::Field(f, _fty) => {
                    let mut name: Option<String> = None;
                    if let ty::Adt(adt, _) = pty.ty.kind() {
                        let vidx = pty.variant_index.unwrap_or(rustc_abi::FIRST_VARIANT);
                        if vidx.as_usize() < adt.variants().len() {
                            let v = adt.variant(vidx);
                            if f.as_usize() < v.fields.len() {
                                name = Some(v.fields[f].name.to_string());
                            }
                        }
                    }
                    Obj::new()
                        .n("f", f.as_usize() as i128)
                        .raw("n", &jopt(name))
                        .end()
                }
                PlaceElem::Downcast(name, vidx) => {
                    let mut vname = name.map(|n| n.to_string());
                    if vname.is_none() {
                        if let ty::Adt(adt, _) = pty.ty.kind() {
                            if vidx.as_usize() < adt.variants().len() {
                                vname = Some(adt.variant(vidx).name.to_string());
                            }
                        }
                    }
                    Obj::new()
                        .raw("dc", &jopt(vname))
                        .n("i", vidx.as_usize() as i128)
                        .end()
                }
                PlaceElem::Index(l) => Obj::new().n("ix", l.as_usize() as i128).end(),
                PlaceElem::ConstantIndex {
                    offset,
                    min_length,
                    from_end,
                } => Obj::new()
                    .raw(
                        "ci",
                        &format!("[{},{},{}]", offset, min_length, if from_end { 1 } else { 0 }),
                    )
                    .end(),
                PlaceElem::Subslice { from, to, from_end } => Obj::new()
                    .raw(
                        "sub",
                        &format!("[{},{},{}]", from, to, if from_end { 1 } else { 0 }),
                    )
                    .end(),
                other => Obj::new().s("other", &format!("{:?}", other)).end(),
            };
            projs.push(j);
            pty = pty.projection_ty(tcx, elem);
        }
        Obj::new()
            .n("l", p.local.as_usize() as i128)
            .raw("p", &jarr(projs))
            .end()
    }

    fn closure_paths_in_ty(&self, t: Ty<'tcx>, out: &mut Vec<String>) {
        for arg in t.walk() {
            if let Some(t) = arg.as_type() {
                match t.kind() {
                    ty::Closure(did, _) | ty::Coroutine(did, _) | ty::CoroutineClosure(did, _) => {
                        let p = self.path(*did);
                        if !out.contains(&p) {
                            out.push(p);
                        }
                    }
                    _ => {}
                }
            }
        }
    }

    fn const_json(&self, body_did: DefId, c: &mir::ConstOperand<'tcx>) -> String {
        let tcx = self.tcx;
        let cty = c.const_.ty();
        let repr = rustc_middle::ty::print::with_no_trimmed_paths!(format!("{}", c.const_));
        let mut o = Obj::new().s("ty", &self.ty_str(cty)).s("repr", &repr);
        match cty.kind() {
            ty::FnDef(did, _) => {
                o = o.s("fn", &self.path(*did));
            }
            _ => {}
        }
        // pointer to a static item (e.g. `&ring::aead::CHACHA20_POLY1305`)?
        if let mir::Const::Val(mir::ConstValue::Scalar(rustc_middle::mir::interpret::Scalar::Ptr(ptr, _)), _) = c.const_ {
            let aid = ptr.provenance.alloc_id();
            if let Some(ga) = tcx.try_get_global_alloc(aid) {
                match ga {
                    rustc_middle::mir::interpret::GlobalAlloc::Static(did) => {
                        o = o.s("static", &self.path(did));
                    }
                    rustc_middle::mir::interpret::GlobalAlloc::Function { instance } => {
                        o = o.s("fnptr", &self.path(instance.def_id()));
                    }
                    _ => {}
                }
            }
        }
        // named constant?
        if let mir::Const::Unevaluated(uv, _) = c.const_ {
            if uv.promoted.is_none() {
                o = o.s("named", &self.path(uv.def));
            } else {
                o = o.n("promoted", uv.promoted.unwrap().as_usize() as i128);
            }
        }
        // evaluated value (scalars only; strings are in repr already). Named constants are
        // NOT evaluated here: evaluating steals the built MIR of the constant's body (and of
        // the parent body for promoteds). The engine joins "named" with the const table.
        let is_scalar_ty = matches!(
            cty.kind(),
            ty::Bool | ty::Char | ty::Int(_) | ty::Uint(_)
        );
        if is_scalar_ty {
            if let mir::Const::Unevaluated(..) = c.const_ {
            } else if let Some(si) = c.const_.try_to_scalar_int() {
                o = o.s("val", &scalar_to_string(tcx, cty, si));
            }
        }
        let _ = body_did;
        o.end()
    }

    fn operand_json(&self, body: &Body<'tcx>, body_did: DefId, op: &Operand<'tcx>) -> String {
        match op {
            Operand::Copy(p) => Obj::new().raw("c", &self.place_json(body, p)).end(),
            Operand::Move(p) => Obj::new().raw("m", &self.place_json(body, p)).end(),
            Operand::Constant(c) => Obj::new().raw("k", &self.const_json(body_did, c)).end(),
            other => Obj::new().s("other", &format!("{:?}", other)).end(),
        }
    }

    fn rvalue_json(&self, body: &Body<'tcx>, body_did: DefId, rv: &Rvalue<'tcx>) -> String {
        let tcx = self.tcx;
        match rv {
            Rvalue::Use(op, ..) => Obj::new()
                .s("k", "use")
                .raw("o", &self.operand_json(body, body_did, op))
                .end(),
            Rvalue::Ref(_, bk, p) => {
                let m = match bk {
                    BorrowKind::Shared => "shared",
                    BorrowKind::Fake(_) => "fake",
                    BorrowKind::Mut { .. } => "mut",
                };
                Obj::new()
                    .s("k", "ref")
                    .s("m", m)
                    .raw("p", &self.place_json(body, p))
                    .end()
            }
            Rvalue::RawPtr(kind, p) => Obj::new()
                .s("k", "rawptr")
                .s("m", &format!("{:?}", kind))
                .raw("p", &self.place_json(body, p))
                .end(),
            Rvalue::Cast(ck, op, t) => Obj::new()
                .s("k", "cast")
                .s("ck", &format!("{:?}", ck))
                .raw("o", &self.operand_json(body, body_did, op))
                .s("ty", &self.ty_str(*t))
                .end(),
            Rvalue::BinaryOp(bop, ops) => Obj::new()
                .s("k", "bin")
                .s("op", &format!("{:?}", bop))
                .raw("a", &self.operand_json(body, body_did, &ops.0))
                .raw("b", &self.operand_json(body, body_did, &ops.1))
                .end(),
            Rvalue::UnaryOp(uop, op) => Obj::new()
                .s("k", "un")
                .s("op", &format!("{:?}", uop))
                .raw("o", &self.operand_json(body, body_did, op))
                .end(),
            Rvalue::Discriminant(p) => {
                let pty = p.ty(&body.local_decls, tcx).ty;
                let mut o = Obj::new()
                    .s("k", "discr")
                    .raw("p", &self.place_json(body, p));
                if let ty::Adt(adt, _) = pty.kind() {
                    if adt.is_enum() {
                        let mut vs = Vec::new();
                        for (vidx, d) in adt.discriminants(tcx) {
                            vs.push(format!(
                                "[{},{}]",
                                js(&d.val.to_string()),
                                js(&adt.variant(vidx).name.to_string())
                            ));
                        }
                        o = o.s("adt", &self.path(adt.did())).raw("variants", &jarr(vs));
                    }
                }
                o.end()
            }
            Rvalue::Aggregate(ak, ops) => {
                let mut o = Obj::new().s("k", "agg");
                match &**ak {
                    AggregateKind::Array(_) => o = o.s("ak", "array"),
                    AggregateKind::Tuple => o = o.s("ak", "tuple"),
                    AggregateKind::Adt(did, vidx, _args, _, active_field) => {
                        let adt = tcx.adt_def(*did);
                        let v = adt.variant(*vidx);
                        let fields: Vec<String> =
                            v.fields.iter().map(|f| js(&f.name.to_string())).collect();
                        o = o
                            .s("ak", "adt")
                            .s("adt", &self.path(*did))
                            .s("variant", &v.name.to_string())
                            .n("vi", vidx.as_usize() as i128)
                            .raw("fields", &jarr(fields));
                        if let Some(af) = active_field {
                            o = o.n("active_field", af.as_usize() as i128);
                        }
                    }
                    AggregateKind::Closure(did, _) => {
                        o = o.s("ak", "closure").s("def", &self.path(*did))
                    }
                    AggregateKind::Coroutine(did, _) => {
                        o = o.s("ak", "coroutine").s("def", &self.path(*did))
                    }
                    AggregateKind::CoroutineClosure(did, _) => {
                        o = o.s("ak", "coroutineclosure").s("def", &self.path(*did))
                    }
                    AggregateKind::RawPtr(..) => o = o.s("ak", "rawptr"),
                    other => o = o.s("ak", &format!("{:?}", other)),
                }
                let opsj: Vec<String> = ops
                    .iter()
                    .map(|op| self.operand_json(body, body_did, op))
                    .collect();
                o.raw("ops", &jarr(opsj)).end()
            }
            Rvalue::Repeat(op, n) => Obj::new()
                .s("k", "repeat")
                .raw("o", &self.operand_json(body, body_did, op))
                .s("n", &format!("{}", n))
                .end(),
            Rvalue::CopyForDeref(p) => Obj::new()
                .s("k", "copyforderef")
                .raw("p", &self.place_json(body, p))
                .end(),
            other => Obj::new()
                .s("k", "other")
                .s("dbg", &format!("{:?}", other))
                .end(),
        }
    }

    fn unwind_json(&self, u: &UnwindAction) -> String {
        match u {
            UnwindAction::Cleanup(bb) => bb.as_usize().to_string(),
            _ => "null".to_string(),
        }
    }

    fn bb(&self, b: BasicBlock) -> i128 {
        b.as_usize() as i128
    }

    fn term_json(&self, body: &Body<'tcx>, body_did: DefId, t: &mir::Terminator<'tcx>) -> String {
        let tcx = self.tcx;
        let sp = self.span_json(t.source_info.span);
        let o = Obj::new();
        let o = match &t.kind {
            TerminatorKind::Goto { target } => o.s("k", "goto").n("t", self.bb(*target)),
            TerminatorKind::SwitchInt { discr, targets } => {
                let dty = discr.ty(&body.local_decls, tcx);
                let mut ts = Vec::new();
                for (v, bb) in targets.iter() {
                    ts.push(format!("[{},{}]", js(&v.to_string()), bb.as_usize()));
                }
                o.s("k", "switch")
                    .raw("o", &self.operand_json(body, body_did, discr))
                    .s("ty", &self.ty_str(dty))
                    .raw("targets", &jarr(ts))
                    .n("otherwise", self.bb(targets.otherwise()))
            }
            TerminatorKind::Return => o.s("k", "return"),
            TerminatorKind::Unreachable => o.s("k", "unreachable"),
            TerminatorKind::UnwindResume => o.s("k", "resume"),
            TerminatorKind::UnwindTerminate(_) => o.s("k", "terminate"),
            TerminatorKind::Drop {
                place,
                target,
                unwind,
                ..
            } => o
                .s("k", "drop")
                .raw("p", &self.place_json(body, place))
                .n("t", self.bb(*target))
                .raw("unwind", &self.unwind_json(unwind)),
            TerminatorKind::Call {
                func,
                args,
                destination,
                target,
                unwind,
                fn_span,
                ..
            } => {
                let mut o = o.s("k", "call");
                let fty = func.ty(&body.local_decls, tcx);
                match fty.kind() {
                    ty::FnDef(did, gargs) => {
                        o = o.s("callee", &self.path(*did));
                        let full = rustc_middle::ty::print::with_no_trimmed_paths!(
                            tcx.def_path_str_with_args(*did, gargs)
                        );
                        o = o.s("full", &full);
                        // generic args as type strings, closures inside them
                        let mut sub = Vec::new();
                        let mut clos = Vec::new();
                        for ga in gargs.iter() {
                            if let Some(t) = ga.as_type() {
                                sub.push(js(&self.ty_str(t)));
                                self.closure_paths_in_ty(t, &mut clos);
                            }
                        }
                        o = o.raw("substs", &jarr(sub));
                        if !clos.is_empty() {
                            o = o.raw("closures", &jarr(clos.iter().map(|c| js(c)).collect()));
                        }
                        // trait method?
                        if let Some(tr) = tcx.trait_of_assoc(*did) {
                            o = o.s("trait", &self.path(tr));
                        }
                        // resolution
                        let typing_env = TypingEnv::post_analysis(tcx, body_did);
                        let needs_subst = gargs.iter().any(|ga| {
                            use rustc_middle::ty::TypeVisitableExt;
                            ga.has_param() || ga.has_infer() || ga.has_aliases()
                        });
                        let _ = needs_subst;
                        if let Ok(Some(inst)) =
                            Instance::try_resolve(tcx, typing_env, *did, gargs)
                        {
                            let rdid = inst.def_id();
                            if rdid != *did {
                                o = o.s("resolved", &self.path(rdid));
                            }
                            match inst.def {
                                ty::InstanceKind::Virtual(..) => o = o.b("virtual", true),
                                _ => {}
                            }
                        }
                    }
                    _ => {
                        o = o.raw("fnop", &self.operand_json(body, body_did, func));
                        o = o.s("fnty", &self.ty_str(fty));
                    }
                }
                let aj: Vec<String> = args
                    .iter()
                    .map(|a| self.operand_json(body, body_did, &a.node))
                    .collect();
                o = o
                    .raw("args", &jarr(aj))
                    .raw("dest", &self.place_json(body, destination))
                    .raw(
                        "t",
                        &match target {
                            Some(b) => b.as_usize().to_string(),
                            None => "null".to_string(),
                        },
                    )
                    .raw("unwind", &self.unwind_json(unwind))
                    .raw("fsp", &self.span_json(*fn_span));
                o
            }
            TerminatorKind::Assert {
                cond,
                expected,
                msg,
                target,
                unwind,
            } => o
                .s("k", "assert")
                .raw("cond", &self.operand_json(body, body_did, cond))
                .b("expected", *expected)
                .s("msg", &format!("{:?}", msg).chars().take(120).collect::<String>())
                .n("t", self.bb(*target))
                .raw("unwind", &self.unwind_json(unwind)),
            TerminatorKind::Yield {
                value,
                resume,
                drop,
                ..
            } => o
                .s("k", "yield")
                .raw("value", &self.operand_json(body, body_did, value))
                .n("t", self.bb(*resume))
                .raw(
                    "drop",
                    &match drop {
                        Some(b) => b.as_usize().to_string(),
                        None => "null".to_string(),
                    },
                ),
            TerminatorKind::CoroutineDrop => o.s("k", "coroutinedrop"),
            TerminatorKind::FalseEdge {
                real_target,
                imaginary_target,
            } => o
                .s("k", "falseedge")
                .n("t", self.bb(*real_target))
                .n("imag", self.bb(*imaginary_target)),
            TerminatorKind::FalseUnwind {
                real_target,
                unwind,
            } => o
                .s("k", "falseunwind")
                .n("t", self.bb(*real_target))
                .raw("unwind", &self.unwind_json(unwind)),
            other => o.s("k", "other").s("dbg", &format!("{:?}", other)),
        };
        o.raw("sp", &sp).end()
    }

    fn body_json(&self, ldid: LocalDefId, body: &Body<'tcx>) -> Option<String> {
        let tcx = self.tcx;
        let did = ldid.to_def_id();
        let kind = tcx.def_kind(did);

        let mut o = Obj::new()
            .s("t", "body")
            .s("path", &self.path(did))
            .s("kind", &format!("{:?}", kind));
        if let Some(ck) = tcx.coroutine_kind(did) {
            o = o.s("coroutine", &format!("{:?}", ck));
        }
        // parent chain
        if let Some(parent) = tcx.opt_parent(did) {
            o = o.s("parent", &self.path(parent));
            o = o.s("parent_kind", &format!("{:?}", tcx.def_kind(parent)));
        }
        // enclosing impl (for assoc fns, closures within them)
        let mut cur = did;
        let mut implinfo: Option<String> = None;
        let mut owner_fn: Option<DefId> = None;
        loop {
            let k = tcx.def_kind(cur);
            if matches!(k, DefKind::Fn | DefKind::AssocFn) && owner_fn.is_none() {
                owner_fn = Some(cur);
            }
            if let DefKind::Impl { of_trait } = k {
                let self_ty = tcx.type_of(cur).instantiate_identity().skip_norm_wip();
                let mut io = Obj::new().s("self", &self.ty_str(self_ty)).s("path", &self.path(cur));
                if of_trait {
                    let tr = tcx.impl_trait_ref(cur).instantiate_identity().skip_norm_wip();
                    io = io.s("trait", &self.path(tr.def_id));
                    io = io.s("trait_full", &rustc_middle::ty::print::with_no_trimmed_paths!(format!("{}", tr.print_only_trait_path())));
                }
                implinfo = Some(io.end());
                break;
            }
            if let DefKind::Trait = k {
                implinfo = Some(Obj::new().s("in_trait", &self.path(cur)).end());
                break;
            }
            match tcx.opt_parent(cur) {
                Some(p) => cur = p,
                None => break,
            }
        }
        if let Some(i) = implinfo {
            o = o.raw("impl", &i);
        }
        if let Some(f) = owner_fn {
            o = o.s("owner_fn", &self.path(f));
        }
        if matches!(kind, DefKind::Fn | DefKind::AssocFn) {
            let vis = tcx.visibility(did);
            o = o.b("pub", vis.is_public());
            let ev = tcx.effective_visibilities(());
            o = o.b("reachable", ev.is_reachable(ldid));
            o = o.b("exported", ev.is_exported(ldid));
            let sig = tcx.fn_sig(did).instantiate_identity().skip_norm_wip().skip_binder();
            let ins: Vec<String> = sig.inputs().iter().map(|t| js(&self.ty_str(*t))).collect();
            o = o
                .raw("sig_in", &jarr(ins))
                .s("sig_out", &self.ty_str(sig.output()));
            o = o.b("is_async", tcx.asyncness(did).is_async());
            o = o.s("name", &tcx.item_name(did).to_string());
        }
        o = o.raw("sp", &self.span_json(body.span));
        o = o.n("argc", body.arg_count as i128);

        // locals
        let mut names: Vec<Option<String>> = vec![None; body.local_decls.len()];
        let mut dbg = Vec::new();
        for vdi in body.var_debug_info.iter() {
            let mut d = Obj::new().s("name", &vdi.name.to_string());
            match &vdi.value {
                mir::VarDebugInfoContents::Place(p) => {
                    if p.projection.is_empty() && names[p.local.as_usize()].is_none() {
                        names[p.local.as_usize()] = Some(vdi.name.to_string());
                    }
                    d = d.raw("place", &self.place_json(body, p));
                }
                mir::VarDebugInfoContents::Const(c) => {
                    d = d.raw("const", &self.const_json(did, c));
                }
            }
            if let Some(ai) = vdi.argument_index {
                d = d.n("arg", ai as i128);
            }
            dbg.push(d.end());
        }
        let mut locals = Vec::new();
        for (l, decl) in body.local_decls.iter_enumerated() {
            let mut lo = Obj::new().s("ty", &self.ty_str(decl.ty));
            lo = lo.raw("name", &jopt(names[l.as_usize()].clone()));
            lo = lo.b("user", decl.is_user_variable());
            lo = lo.b("mut", decl.mutability.is_mut());
            let mut clos = Vec::new();
            self.closure_paths_in_ty(decl.ty, &mut clos);
            if !clos.is_empty() {
                lo = lo.raw("closures", &jarr(clos.iter().map(|c| js(c)).collect()));
            }
            locals.push(lo.end());
        }
        o = o.raw("locals", &jarr(locals)).raw("dbg", &jarr(dbg));

        // upvars for closures/coroutines: names of captured variables in order
        if matches!(kind, DefKind::Closure) {
            let mut ups = Vec::new();
            for cap in tcx.closure_captures(ldid) {
                ups.push(js(&cap.to_string(tcx)));
            }
            o = o.raw("upvars", &jarr(ups));
        }

        // blocks
        let mut blocks = Vec::new();
        for (_bb, data) in body.basic_blocks.iter_enumerated() {
            let mut stmts = Vec::new();
            for st in data.statements.iter() {
                let so = match &st.kind {
                    StatementKind::Assign(b) => {
                        let (p, rv) = &**b;
                        Some(
                            Obj::new()
                                .s("k", "assign")
                                .raw("l", &self.place_json(body, p))
                                .raw("r", &self.rvalue_json(body, did, rv)),
                        )
                    }
                    StatementKind::SetDiscriminant {
                        place,
                        variant_index,
                    } => Some(
                        Obj::new()
                            .s("k", "setdiscr")
                            .raw("l", &self.place_json(body, place))
                            .n("vi", variant_index.as_usize() as i128),
                    ),
                    StatementKind::StorageDead(l) => {
                        Some(Obj::new().s("k", "dead").n("local", l.as_usize() as i128))
                    }
                    StatementKind::StorageLive(l) => {
                        Some(Obj::new().s("k", "live").n("local", l.as_usize() as i128))
                    }
                    _ => None,
                };
                if let Some(so) = so {
                    stmts.push(so.raw("sp", &self.span_json(st.source_info.span)).end());
                }
            }
            let term = match &data.terminator {
                Some(t) => self.term_json(body, did, t),
                None => "null".to_string(),
            };
            blocks.push(
                Obj::new()
                    .b("cleanup", data.is_cleanup)
                    .raw("s", &jarr(stmts))
                    .raw("t", &term)
                    .end(),
            );
        }
        o = o.raw("blocks", &jarr(blocks));
        Some(o.end())
    }

    fn tables(&self, out: &mut Vec<String>) {
        let tcx = self.tcx;
        for id in tcx.hir_crate_items(()).definitions() {
            let did = id.to_def_id();
            let kind = tcx.def_kind(did);
            match kind {
                DefKind::Struct | DefKind::Enum | DefKind::Union => {
                    let adt = tcx.adt_def(did);
                    let mut vs = Vec::new();
                    let discrs: Vec<(rustc_abi::VariantIdx, String)> = if adt.is_enum() {
                        adt.discriminants(tcx)
                            .map(|(i, d)| (i, d.val.to_string()))
                            .collect()
                    } else {
                        Vec::new()
                    };
                    for (vidx, v) in adt.variants().iter_enumerated() {
                        let mut fs = Vec::new();
                        for f in v.fields.iter() {
                            let fty = tcx.type_of(f.did).instantiate_identity().skip_norm_wip();
                            fs.push(
                                Obj::new()
                                    .s("name", &f.name.to_string())
                                    .s("ty", &self.ty_str(fty))
                                    .b("pub", f.vis.is_public())
                                    .end(),
                            );
                        }
                        let d = discrs
                            .iter()
                            .find(|(i, _)| *i == vidx)
                            .map(|(_, d)| d.clone());
                        vs.push(
                            Obj::new()
                                .s("name", &v.name.to_string())
                                .raw("discr", &jopt(d))
                                .s("ctor", &format!("{:?}", v.ctor_kind()))
                                .raw("fields", &jarr(fs))
                                .end(),
                        );
                    }
                    out.push(
                        Obj::new()
                            .s("t", "adt")
                            .s("path", &self.path(did))
                            .s("kind", &format!("{:?}", kind))
                            .b("pub", tcx.visibility(did).is_public())
                            .raw("variants", &jarr(vs))
                            .raw("sp", &self.span_json(tcx.def_span(did)))
                            .end(),
                    );
                }
                DefKind::Trait => {
                    let mut ms = Vec::new();
                    for item in tcx.associated_items(did).in_definition_order() {
                        if item.is_fn() {
                            ms.push(
                                Obj::new()
                                    .s("name", &item.name().to_string())
                                    .s("path", &self.path(item.def_id))
                                    .b("has_default", item.defaultness(tcx).has_value())
                                    .end(),
                            );
                        }
                    }
                    out.push(
                        Obj::new()
                            .s("t", "trait")
                            .s("path", &self.path(did))
                            .raw("methods", &jarr(ms))
                            .end(),
                    );
                }
                DefKind::Impl { of_trait } => {
                    let self_ty = tcx.type_of(did).instantiate_identity().skip_norm_wip();
                    let mut o = Obj::new()
                        .s("t", "impl")
                        .s("path", &self.path(did))
                        .s("self", &self.ty_str(self_ty));
                    if of_trait {
                        let tr = tcx.impl_trait_ref(did).instantiate_identity().skip_norm_wip();
                        o = o.s("trait", &self.path(tr.def_id));
                    }
                    let mut items = Vec::new();
                    for item in tcx.associated_items(did).in_definition_order() {
                        let mut io = Obj::new()
                            .s("name", &item.name().to_string())
                            .s("path", &self.path(item.def_id))
                            .b("fn", item.is_fn());
                        if let Some(tid) = item.trait_item_def_id() {
                            io = io.s("trait_item", &self.path(tid));
                        }
                        items.push(io.end());
                    }
                    out.push(
                        o.raw("items", &jarr(items))
                            .raw("sp", &self.span_json(tcx.def_span(did)))
                            .end(),
                    );
                }
                DefKind::Const { .. } | DefKind::AssocConst { .. } | DefKind::Static { .. } => {
                    let cty = tcx.type_of(did).instantiate_identity().skip_norm_wip();
                    let mut o = Obj::new()
                        .s("t", "const")
                        .s("path", &self.path(did))
                        .s("kind", &format!("{:?}", kind))
                        .s("ty", &self.ty_str(cty));
                    if matches!(kind, DefKind::Const { .. }) {
                        use rustc_middle::ty::TypeVisitableExt;
                        if !cty.has_param() {
                            if let Ok(v) = tcx.const_eval_poly(did) {
                                let mc = mir::Const::Val(v, cty);
                                let s = rustc_middle::ty::print::with_no_trimmed_paths!(format!(
                                    "{}",
                                    mc
                                ));
                                o = o.s("val", &s);
                                if let Some(si) = v.try_to_scalar_int() {
                                    if matches!(
                                        cty.kind(),
                                        ty::Bool | ty::Char | ty::Int(_) | ty::Uint(_)
                                    ) {
                                        o = o.s("scalar", &scalar_to_string(tcx, cty, si));
                                    }
                                }
                            }
                        }
                    }
                    out.push(o.end());
                }
                _ => {}
            }
        }
    }
}

fn scalar_to_string<'tcx>(tcx: TyCtxt<'tcx>, t: Ty<'tcx>, si: ty::ScalarInt) -> String {
    let _ = tcx;
    match t.kind() {
        ty::Bool => {
            if si.to_bits(si.size()) != 0 {
                "true".into()
            } else {
                "false".into()
            }
        }
        ty::Int(_) => {
            let size = si.size();
            format!("{}", si.to_int(size))
        }
        _ => format!("{}", si.to_bits(si.size())),
    }
}

struct Cb {
    out: Option<String>,
    crate_name: String,
    nonce: String,
}

impl rustc_driver::Callbacks for Cb {
    fn after_expansion<'tcx>(&mut self, _c: &Compiler, tcx: TyCtxt<'tcx>) -> Compilation {
        let cname = tcx.crate_name(rustc_hir::def_id::LOCAL_CRATE).to_string();
        if cname != self.crate_name {
            return Compilation::Continue;
        }
        let Some(outp) = self.out.clone() else {
            return Compilation::Continue;
        };
        let cx = Cx { tcx };
        let mut lines: Vec<String> = Vec::new();
        lines.push(
            Obj::new()
                .s("t", "meta")
                .s("crate", &cname)
                .s("nonce", &self.nonce)
                .s("rustc", &format!("{}", rustc_interface::util::rustc_version_str().unwrap_or("?")))
                .end(),
        );
        no_trim(|| ());
        // bodies first: nothing before this point may run a query that steals mir_built
        // Pass 1: clone every built body using no other query (later queries such as
        // type_of(opaque) run borrowck and steal mir_built).
        let mut bodies: Vec<(LocalDefId, Body<'tcx>)> = Vec::new();
        let mut stolen: Vec<String> = Vec::new();
        let mut skipped: Vec<String> = Vec::new();
        for ldid in tcx.hir_body_owners() {
            let st = tcx.mir_built(ldid);
            if st.is_stolen() {
                // anonymous constants (array lengths) are evaluated during type checking of
                // their parent; they contain no code of interest.
                let k = tcx.def_kind(ldid.to_def_id());
                if matches!(k, DefKind::AnonConst | DefKind::InlineConst) {
                    skipped.push(cx.path(ldid.to_def_id()));
                } else {
                    stolen.push(cx.path(ldid.to_def_id()));
                }
                continue;
            }
            bodies.push((ldid, st.borrow().clone()));
        }
        if !stolen.is_empty() {
            eprintln!("tcfacts: FATAL: built MIR already stolen for: {:?}", stolen);
            std::process::exit(3);
        }
        let mut nbodies = 0;
        for (ldid, body) in bodies.iter() {
            if let Some(l) = cx.body_json(*ldid, body) {
                lines.push(l);
                nbodies += 1;
            }
        }
        cx.tables(&mut lines);
        lines.push(
            Obj::new()
                .s("t", "end")
                .n("bodies", nbodies)
                .raw("skipped_anon_consts", &jarr(skipped.iter().map(|x| js(x)).collect()))
                .end(),
        );
        let mut s = String::new();
        for l in lines {
            s.push_str(&l);
            s.push('\n');
        }
        let tmp = format!("{}.tmp.{}", outp, std::process::id());
        std::fs::write(&tmp, s).expect("tcfacts: cannot write facts");
        std::fs::rename(&tmp, &outp).expect("tcfacts: cannot rename facts");
        Compilation::Continue
    }
}

fn main() {
    let mut args: Vec<String> = std::env::args().collect();
    // RUSTC_WORKSPACE_WRAPPER: argv[1] is the path of the real rustc
    if args.len() > 1 && (args[1].ends_with("rustc") || args[1].contains("/rustc")) {
        args.remove(1);
    }
    let out = std::env::var("TCFACTS_OUT").ok();
    let crate_name = std::env::var("TCFACTS_CRATE").unwrap_or_else(|_| "taskchampion".to_string());
    let nonce = std::env::var("TCFACTS_NONCE").unwrap_or_default();
    let mut cb = Cb {
        out,
        crate_name,
        nonce,
    };
    rustc_driver::run_compiler(&args, &mut cb);
}
