#!/bin/sh
# Build the fact extractor and warm the extraction cache (offline).
set -e
cd "$(dirname "$0")"
export CARGO_NET_OFFLINE=true
(cd engine/tcfacts && cargo +nightly build --offline)
mkdir -p .cache evidence
python3 rules/tc/extract.py /repo
python3 rules/selftest.py
