// Scratch reproduction of suspected defects (design phase only; not part of the machinery).
use async_trait::async_trait;
use chrono::{TimeZone, Utc};
use std::collections::HashMap;
use std::sync::{Arc, Mutex};
use taskchampion::server::{
    AddVersionResult, GetVersionResult, HistorySegment, Server, Snapshot, SnapshotUrgency,
    VersionId,
};
use taskchampion::storage::inmemory::InMemoryStorage;
use taskchampion::storage::Storage;
use taskchampion::{Operation, Operations, Replica, TaskData, Uuid};

#[derive(Default)]
struct Chain {
    latest: Option<VersionId>,
    by_parent: HashMap<VersionId, (VersionId, Vec<u8>)>,
    order: Vec<(VersionId, VersionId, Vec<u8>)>,
    snapshots: Vec<(VersionId, Vec<u8>)>,
    urgency: Option<SnapshotUrgency>,
    // one-shot: versions to inject right before the Nth add_version call is processed
    inject_before_add: Option<(usize, Vec<Vec<u8>>)>,
    add_calls: usize,
}

impl Chain {
    fn push(&mut self, seg: Vec<u8>) -> VersionId {
        let parent = self.latest.unwrap_or(Uuid::nil());
        let id = Uuid::new_v4();
        self.by_parent.insert(parent, (id, seg.clone()));
        self.order.push((parent, id, seg));
        self.latest = Some(id);
        id
    }
}

#[derive(Clone)]
struct Srv(Arc<Mutex<Chain>>);

#[async_trait(?Send)]
impl Server for Srv {
    async fn add_version(
        &mut self,
        parent: VersionId,
        seg: HistorySegment,
    ) -> Result<(AddVersionResult, SnapshotUrgency), taskchampion::Error> {
        let mut c = self.0.lock().unwrap();
        c.add_calls += 1;
        if let Some((n, _)) = &c.inject_before_add {
            if *n == c.add_calls {
                let (_, segs) = c.inject_before_add.take().unwrap();
                for s in segs {
                    c.push(s);
                }
            }
        }
        let urgency = c.urgency.unwrap_or(SnapshotUrgency::None);
        match c.latest {
            Some(l) if l != parent => Ok((
                AddVersionResult::ExpectedParentVersion(l),
                SnapshotUrgency::None,
            )),
            _ => {
                let id = Uuid::new_v4();
                c.by_parent.insert(parent, (id, seg.clone()));
                c.order.push((parent, id, seg));
                c.latest = Some(id);
                Ok((AddVersionResult::Ok(id), urgency))
            }
        }
    }
    async fn get_child_version(
        &mut self,
        parent: VersionId,
    ) -> Result<GetVersionResult, taskchampion::Error> {
        let c = self.0.lock().unwrap();
        Ok(match c.by_parent.get(&parent) {
            Some((id, seg)) => GetVersionResult::Version {
                version_id: *id,
                parent_version_id: parent,
                history_segment: seg.clone(),
            },
            None => GetVersionResult::NoSuchVersion,
        })
    }
    async fn add_snapshot(&mut self, v: VersionId, s: Snapshot) -> Result<(), taskchampion::Error> {
        self.0.lock().unwrap().snapshots.push((v, s));
        Ok(())
    }
    async fn get_snapshot(&mut self) -> Result<Option<(VersionId, Snapshot)>, taskchampion::Error> {
        Ok(None)
    }
}

fn upd(uuid: Uuid, p: &str, v: &str, secs: i64) -> Operation {
    Operation::Update {
        uuid,
        property: p.into(),
        old_value: None,
        value: Some(v.into()),
        timestamp: Utc.timestamp_opt(secs, 0).unwrap(),
    }
}

async fn state(r: &mut Replica<InMemoryStorage>) -> Vec<(Uuid, Vec<(String, String)>)> {
    let mut v: Vec<_> = r
        .all_task_data()
        .await
        .unwrap()
        .into_iter()
        .map(|(u, t)| {
            let mut kv: Vec<_> = t.iter().map(|(k, v)| (k.clone(), v.clone())).collect();
            kv.sort();
            (u, kv)
        })
        .collect();
    v.sort();
    v
}

#[tokio::test]
async fn c02_retry_resends_loser() {
    let chain = Arc::new(Mutex::new(Chain::default()));
    let mut sa: Box<dyn Server> = Box::new(Srv(chain.clone()));
    let mut sb: Box<dyn Server> = Box::new(Srv(chain.clone()));
    let mut a = Replica::new(InMemoryStorage::new());
    let mut b = Replica::new(InMemoryStorage::new());
    let u = Uuid::new_v4();
    a.commit_operations(vec![Operation::Create { uuid: u }]).await.unwrap();
    a.sync(&mut sa, true).await.unwrap();
    b.sync(&mut sb, true).await.unwrap();
    // A: q=a@1, r=x ; B: q=b@2 (wins), synced first
    a.commit_operations(vec![upd(u, "q", "a", 1), upd(u, "r", "x", 1)]).await.unwrap();
    b.commit_operations(vec![upd(u, "q", "b", 2)]).await.unwrap();
    b.sync(&mut sb, true).await.unwrap();
    // a third replica's unrelated version lands between A's last pull and its push
    let other = Uuid::new_v4();
    let seg = format!(r#"{{"operations":[{{"Create":{{"uuid":"{other}"}}}}]}}"#).into_bytes();
    {
        let mut c = chain.lock().unwrap();
        let n = c.add_calls + 1;
        c.inject_before_add = Some((n, vec![seg]));
    }
    a.sync(&mut sa, true).await.unwrap();
    b.sync(&mut sb, true).await.unwrap();
    a.sync(&mut sa, true).await.unwrap();
    let (sa_, sb_) = (state(&mut a).await, state(&mut b).await);
    println!("A={sa_:?}\nB={sb_:?}");
    for (p, id, seg) in &chain.lock().unwrap().order {
        println!("{p} -> {id}: {}", String::from_utf8_lossy(seg));
    }
    assert_eq!(sa_, sb_, "C02: replicas diverged after a rejected push");
}

#[tokio::test]
async fn c01_two_batches_one_remote_update() {
    let chain = Arc::new(Mutex::new(Chain::default()));
    let mut sa: Box<dyn Server> = Box::new(Srv(chain.clone()));
    let mut sb: Box<dyn Server> = Box::new(Srv(chain.clone()));
    let mut a = Replica::new(InMemoryStorage::new());
    let mut b = Replica::new(InMemoryStorage::new());
    let u = Uuid::new_v4();
    a.commit_operations(vec![Operation::Create { uuid: u }]).await.unwrap();
    a.sync(&mut sa, true).await.unwrap();
    b.sync(&mut sb, true).await.unwrap();
    let big = "x".repeat(1_000_100);
    a.commit_operations(vec![upd(u, "big", &big, 1), upd(u, "q", "a", 1)]).await.unwrap();
    b.commit_operations(vec![upd(u, "q", "b", 2)]).await.unwrap();
    b.sync(&mut sb, true).await.unwrap();
    a.sync(&mut sa, true).await.unwrap();
    b.sync(&mut sb, true).await.unwrap();
    a.sync(&mut sa, true).await.unwrap();
    let qa = a.get_task_data(u).await.unwrap().unwrap().get("q").map(|s| s.to_string());
    let qb = b.get_task_data(u).await.unwrap().unwrap().get("q").map(|s| s.to_string());
    println!("versions on server: {}", chain.lock().unwrap().order.len());
    assert_eq!(qa, qb, "C01: replicas diverged with two batches + one remote update");
}

#[tokio::test]
async fn c12_snapshot_between_batches() {
    let chain = Arc::new(Mutex::new(Chain::default()));
    chain.lock().unwrap().urgency = Some(SnapshotUrgency::High);
    let mut sa: Box<dyn Server> = Box::new(Srv(chain.clone()));
    let mut a = Replica::new(InMemoryStorage::new());
    let u = Uuid::new_v4();
    let big = "x".repeat(1_000_100);
    a.commit_operations(vec![
        Operation::Create { uuid: u },
        upd(u, "big", &big, 1),
        upd(u, "later", "batch2", 1),
    ])
    .await
    .unwrap();
    a.sync(&mut sa, false).await.unwrap();
    let c = chain.lock().unwrap();
    println!("versions={} snapshots={}", c.order.len(), c.snapshots.len());
    use std::io::Read;
    assert!(!c.snapshots.is_empty());
    for (v, snap) in &c.snapshots {
        let k = c.order.iter().position(|(_, id, _)| id == v).expect("snapshot for unknown version");
        let in_chain = c.order[..=k]
            .iter()
            .any(|(_, _, seg)| String::from_utf8_lossy(seg).contains("batch2"));
        let mut d = flate2::read::ZlibDecoder::new(&snap[..]);
        let mut s = String::new();
        d.read_to_string(&mut s).unwrap();
        assert_eq!(
            s.contains("batch2"),
            in_chain,
            "C12: snapshot for version #{k} does not match the chain replay up to it"
        );
    }
}

#[tokio::test]
async fn c15_rebuild_gaps() {
    let mut st = InMemoryStorage::new();
    let (a, b, gone) = (Uuid::new_v4(), Uuid::new_v4(), Uuid::new_v4());
    {
        let mut t = st.txn().await.unwrap();
        for u in [a, b] {
            t.create_task(u).await.unwrap();
            let mut m = HashMap::new();
            m.insert("status".to_string(), "pending".to_string());
            t.set_task(u, m).await.unwrap();
        }
        // working set [_, a, gone, b]
        t.add_to_working_set(a).await.unwrap();
        t.add_to_working_set(gone).await.unwrap();
        t.add_to_working_set(b).await.unwrap();
        t.commit().await.unwrap();
    }
    let mut r = Replica::new(st);
    r.rebuild_working_set(false).await.unwrap();
    let ws = r.working_set().await.unwrap();
    println!("no-renumber: a={:?} b={:?}", ws.by_uuid(a), ws.by_uuid(b));
    assert_eq!(ws.by_uuid(b), Some(3), "C15: b moved although renumbering was not requested");
}

#[tokio::test]
async fn c15_rebuild_renumber_keeps_gap() {
    let mut st = InMemoryStorage::new();
    let (a, b) = (Uuid::new_v4(), Uuid::new_v4());
    {
        let mut t = st.txn().await.unwrap();
        for u in [a, b] {
            t.create_task(u).await.unwrap();
            let mut m = HashMap::new();
            m.insert("status".to_string(), "pending".to_string());
            t.set_task(u, m).await.unwrap();
        }
        t.add_to_working_set(a).await.unwrap();
        t.add_to_working_set(Uuid::new_v4()).await.unwrap();
        t.add_to_working_set(b).await.unwrap();
        t.set_working_set_item(2, None).await.unwrap(); // [_, a, _, b]
        t.commit().await.unwrap();
    }
    let mut r = Replica::new(st);
    r.rebuild_working_set(true).await.unwrap();
    let ws = r.working_set().await.unwrap();
    println!("renumber: a={:?} b={:?}", ws.by_uuid(a), ws.by_uuid(b));
    assert_eq!(ws.by_uuid(b), Some(2), "C15: renumbering kept an old gap");
}

#[tokio::test]
async fn c16_inmemory_add_to_working_set_index() {
    let mut st = InMemoryStorage::new();
    let mut t = st.txn().await.unwrap();
    let u = Uuid::new_v4();
    let idx = t.add_to_working_set(u).await.unwrap();
    let ws = t.get_working_set().await.unwrap();
    assert_eq!(ws[idx.min(ws.len() - 1)], Some(u));
    assert_eq!(idx, 1, "C16: in-memory add_to_working_set returned the wrong index");
}

#[tokio::test]
async fn c18_out_of_range_timestamp() {
    let mut r = Replica::new(InMemoryStorage::new());
    let u = Uuid::new_v4();
    let mut ops = Operations::new();
    let mut t = TaskData::create(u, &mut ops);
    t.update("due", Some("99999999999999999".into()), &mut ops);
    r.commit_operations(ops).await.unwrap();
    let task = r.get_task(u).await.unwrap().unwrap();
    let res = std::panic::catch_unwind(std::panic::AssertUnwindSafe(|| task.get_due()));
    assert!(res.is_ok(), "C18: get_due panicked on an out-of-range integer");
}
