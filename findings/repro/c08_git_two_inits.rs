#![cfg(all(feature = "server-git", not(target_arch = "wasm32")))]
//! two clones are opened on a still empty remote; each creates its own `meta` (own salt)
use std::path::Path;
use taskchampion::server::{AddVersionResult, GetVersionResult, NIL_VERSION_ID};
use taskchampion::{Server, ServerConfig};
use tempfile::TempDir;

async fn open(dir: &Path, bare: &Path) -> Box<dyn Server> {
    ServerConfig::Git {
        local_path: dir.to_path_buf(),
        branch: "main".into(),
        remote: Some(bare.to_str().unwrap().to_string()),
        local_only: false,
        encryption_secret: b"s".to_vec(),
        git_path: None,
    }
    .into_server()
    .await
    .unwrap()
}

#[tokio::test]
async fn two_replicas_initialise_an_empty_remote() {
    let tmp = TempDir::new().unwrap();
    let bare = tmp.path().join("bare.git");
    assert!(std::process::Command::new("git").args(["init", "--bare", "--quiet"]).arg(&bare).status().unwrap().success());
    let mut a = open(&tmp.path().join("a"), &bare).await;
    let mut b = open(&tmp.path().join("b"), &bare).await;
    let AddVersionResult::Ok(v1) = a.add_version(NIL_VERSION_ID, b"one".to_vec()).await.unwrap().0 else { panic!() };
    // B pushes on the empty chain too: must be told about v1
    match b.add_version(NIL_VERSION_ID, b"other".to_vec()).await.unwrap().0 {
        AddVersionResult::ExpectedParentVersion(p) => assert_eq!(p, v1),
        AddVersionResult::Ok(x) => panic!("second first-version {x} accepted"),
    }
    // B pulls v1
    match b.get_child_version(NIL_VERSION_ID).await.unwrap() {
        GetVersionResult::Version { version_id, history_segment, .. } => {
            assert_eq!(version_id, v1);
            assert_eq!(history_segment, b"one".to_vec());
        }
        GetVersionResult::NoSuchVersion => panic!("v1 not served"),
    }
    // B pushes on v1, A reads it
    let AddVersionResult::Ok(v2) = b.add_version(v1, b"two".to_vec()).await.unwrap().0 else { panic!() };
    match a.get_child_version(v1).await.unwrap() {
        GetVersionResult::Version { version_id, history_segment, .. } => {
            assert_eq!(version_id, v2);
            assert_eq!(history_segment, b"two".to_vec());
        }
        GetVersionResult::NoSuchVersion => panic!("v2 not served"),
    }
}
