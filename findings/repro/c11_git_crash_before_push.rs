#![cfg(all(feature = "server-git", not(target_arch = "wasm32")))]
//! C11, git backend with a remote: add_version stops after `git commit` and before `git push`
//! (here: the git binary cannot be started for the push, which leaves the same files behind as
//! a process that died at that point). After the directory is reopened the version must be
//! either fully accepted (on the remote) or not visible at all.
use std::path::{Path, PathBuf};
use taskchampion::server::{AddVersionResult, GetVersionResult, NIL_VERSION_ID};
use taskchampion::{Server, ServerConfig};
use tempfile::TempDir;

/// `<dir>/git` is a symlink to a script that runs the real git; while `<dir>/stop-after-commit`
/// exists, a successful `git commit` removes the symlink, so the next git command cannot start
fn vanishing_git(dir: &Path) -> (PathBuf, PathBuf, PathBuf) {
    use std::os::unix::fs::PermissionsExt;
    let script = dir.join("realgit.sh");
    let link = dir.join("git");
    let flag = dir.join("stop-after-commit");
    std::fs::write(
        &script,
        format!(
            "#!/bin/sh\ngit \"$@\"\nrc=$?\nif [ \"$1\" = commit ] && [ -e '{f}' ]; then rm -f '{l}'; fi\nexit $rc\n",
            f = flag.display(),
            l = link.display()
        ),
    )
    .unwrap();
    std::fs::set_permissions(&script, std::fs::Permissions::from_mode(0o755)).unwrap();
    std::os::unix::fs::symlink(&script, &link).unwrap();
    (script, link, flag)
}

async fn open(dir: &Path, bare: &Path, git: &Path) -> Box<dyn Server> {
    ServerConfig::Git {
        local_path: dir.to_path_buf(),
        branch: "main".into(),
        remote: Some(bare.to_str().unwrap().to_string()),
        local_only: false,
        encryption_secret: b"s".to_vec(),
        git_path: Some(git.to_path_buf()),
    }
    .into_server()
    .await
    .unwrap()
}

#[tokio::test]
async fn stop_between_commit_and_push_then_restart() {
    let tmp = TempDir::new().unwrap();
    let (script, link, flag) = vanishing_git(tmp.path());
    let bare = tmp.path().join("bare.git");
    assert!(std::process::Command::new("git").args(["init", "--bare", "--quiet"]).arg(&bare).status().unwrap().success());
    let mut a = open(&tmp.path().join("a"), &bare, &link).await;
    let AddVersionResult::Ok(v1) = a.add_version(NIL_VERSION_ID, b"one".to_vec()).await.unwrap().0 else { panic!() };
    std::fs::write(&flag, "").unwrap();
    assert!(a.add_version(v1, b"two".to_vec()).await.is_err(), "the push could not even be started");
    drop(a);
    // restart
    std::fs::remove_file(&flag).unwrap();
    std::os::unix::fs::symlink(&script, &link).unwrap();
    let mut a = open(&tmp.path().join("a"), &bare, &link).await;
    let mut b = open(&tmp.path().join("b"), &bare, &link).await;
    let seen_by_a = a.get_child_version(v1).await.unwrap();
    let seen_by_b = b.get_child_version(v1).await.unwrap();
    assert_eq!(
        seen_by_a, seen_by_b,
        "the interrupted replica is served a child of {v1} that no other replica can see: it drops its pending operations as already synchronized, and they never reach the server"
    );
    if let GetVersionResult::Version { version_id, .. } = seen_by_a {
        assert_eq!(a.get_child_version(version_id).await.unwrap(), GetVersionResult::NoSuchVersion);
    }
}
