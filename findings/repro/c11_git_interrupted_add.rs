#![cfg(all(feature = "server-git", not(target_arch = "wasm32")))]
//! C11, git backend: an add_version that fails at one of its git steps (here: `git add` exits
//! non-zero, as with a full disk or a stale index.lock) must leave the version either fully
//! accepted or invisible after the directory is reopened, and syncing must go on.
use std::os::unix::fs::PermissionsExt;
use std::path::{Path, PathBuf};
use taskchampion::server::{AddVersionResult, GetVersionResult, NIL_VERSION_ID};
use taskchampion::{Server, ServerConfig, Uuid};
use tempfile::TempDir;

/// a git that fails the sub-command named in `<flag file>` while that file exists
fn faulty_git(dir: &Path) -> (PathBuf, PathBuf) {
    let script = dir.join("faultygit");
    let flag = dir.join("fail-step");
    std::fs::write(
        &script,
        format!("#!/bin/sh\nif [ -e '{f}' ] && [ \"$1\" = \"$(cat '{f}')\" ]; then exit 1; fi\nexec git \"$@\"\n", f = flag.display()),
    )
    .unwrap();
    std::fs::set_permissions(&script, std::fs::Permissions::from_mode(0o755)).unwrap();
    (script, flag)
}

async fn open_local(dir: &Path, git: &Path) -> Box<dyn Server> {
    ServerConfig::Git {
        local_path: dir.to_path_buf(),
        branch: "main".into(),
        remote: None,
        local_only: true,
        encryption_secret: b"s".to_vec(),
        git_path: Some(git.to_path_buf()),
    }
    .into_server()
    .await
    .unwrap()
}

async fn chain_is_usable(server: &mut Box<dyn Server>, latest: Uuid) {
    // what a replica based on `latest` does: look for a child, then push
    let child = server.get_child_version(latest).await.unwrap();
    let mut parent = latest;
    if let GetVersionResult::Version { version_id, parent_version_id, .. } = child {
        assert_eq!(parent_version_id, latest);
        parent = version_id;
        assert_eq!(server.get_child_version(parent).await.unwrap(), GetVersionResult::NoSuchVersion);
    }
    match server.add_version(parent, b"next".to_vec()).await.unwrap().0 {
        AddVersionResult::Ok(_) => {}
        AddVersionResult::ExpectedParentVersion(p) => panic!(
            "after restart the backend demands parent {p}, but no child of {parent} can be fetched: every replica is out of sync for good"
        ),
    }
}

async fn interrupted_at(step: &str) {
    let tmp = TempDir::new().unwrap();
    let (git, flag) = faulty_git(tmp.path());
    let repo = tmp.path().join("repo");
    let mut s = open_local(&repo, &git).await;
    let AddVersionResult::Ok(v1) = s.add_version(NIL_VERSION_ID, b"one".to_vec()).await.unwrap().0 else { panic!() };
    std::fs::write(&flag, step).unwrap();
    assert!(s.add_version(v1, b"two".to_vec()).await.is_err());
    std::fs::remove_file(&flag).unwrap();
    drop(s);
    let mut s = open_local(&repo, &git).await;
    chain_is_usable(&mut s, v1).await;
}

#[tokio::test]
async fn add_version_fails_at_git_add_then_restart() {
    interrupted_at("add").await;
}

#[tokio::test]
async fn add_version_fails_at_git_commit_then_restart() {
    interrupted_at("commit").await;
}

async fn open_remote(dir: &Path, bare: &Path, git: &Path) -> Box<dyn Server> {
    ServerConfig::Git {
        local_path: dir.to_path_buf(),
        branch: "main".into(),
        remote: Some(bare.to_str().unwrap().to_string()),
        local_only: false,
        encryption_secret: b"s".to_vec(),
        git_path: Some(git.to_path_buf()),
    }
    .into_server()
    .await
    .unwrap()
}

/// same handle keeps going after the failed add (a long-running process retrying its sync)
async fn same_handle_after(step: &str, local_only: bool) {
    let tmp = TempDir::new().unwrap();
    let (git, flag) = faulty_git(tmp.path());
    let bare = tmp.path().join("bare.git");
    assert!(std::process::Command::new("git").args(["init", "--bare", "--quiet"]).arg(&bare).status().unwrap().success());
    let mut s = if local_only { open_local(&tmp.path().join("a"), &git).await } else { open_remote(&tmp.path().join("a"), &bare, &git).await };
    let AddVersionResult::Ok(v1) = s.add_version(NIL_VERSION_ID, b"one".to_vec()).await.unwrap().0 else { panic!() };
    std::fs::write(&flag, step).unwrap();
    assert!(s.add_version(v1, b"two".to_vec()).await.is_err());
    std::fs::remove_file(&flag).unwrap();
    // the replica retries: pull, then push
    let mut base = v1;
    if let GetVersionResult::Version { version_id, .. } = s.get_child_version(v1).await.unwrap() {
        // the failed version is served: then it must really be part of the chain
        base = version_id;
        if !local_only {
            let mut other = open_remote(&tmp.path().join("b"), &bare, &git).await;
            match other.get_child_version(v1).await.unwrap() {
                GetVersionResult::Version { version_id: seen, .. } => assert_eq!(seen, version_id),
                GetVersionResult::NoSuchVersion => panic!("version {version_id} was served to the replica whose add failed, but it is not on the remote: that replica now has a base version nobody else will ever see"),
            }
        }
    }
    assert_eq!(s.get_child_version(base).await.unwrap(), GetVersionResult::NoSuchVersion);
    match s.add_version(base, b"three".to_vec()).await.unwrap().0 {
        AddVersionResult::Ok(_) => {}
        AddVersionResult::ExpectedParentVersion(p) => panic!("push on {base} refused, expected parent {p}"),
    }
}

#[tokio::test]
async fn add_fails_at_git_add_same_handle_remote() {
    same_handle_after("add", false).await;
}
#[tokio::test]
async fn add_fails_at_git_commit_same_handle_remote() {
    same_handle_after("commit", false).await;
}
#[tokio::test]
async fn add_fails_at_git_add_same_handle_local() {
    same_handle_after("add", true).await;
}
#[tokio::test]
async fn add_fails_at_git_commit_same_handle_local() {
    same_handle_after("commit", true).await;
}
