use taskchampion::{Operations, Replica, ServerConfig, Status};
use taskchampion::storage::inmemory::InMemoryStorage;
use tempfile::TempDir;
use uuid::Uuid;

#[tokio::test]
async fn dependency_map_reflects_synced_changes() -> anyhow::Result<()> {
    let dir = TempDir::new()?;
    let mut server = ServerConfig::Local { server_dir: dir.path().to_path_buf() }.into_server().await?;
    let mut a = Replica::new(InMemoryStorage::new());
    let mut b = Replica::new(InMemoryStorage::new());

    let (u1, u2) = (Uuid::new_v4(), Uuid::new_v4());
    let mut ops = Operations::new();
    let mut t1 = a.create_task(u1, &mut ops).await?;
    t1.set_status(Status::Pending, &mut ops)?;
    let mut t2 = a.create_task(u2, &mut ops).await?;
    t2.set_status(Status::Pending, &mut ops)?;
    t1.add_dependency(u2, &mut ops)?;
    a.commit_operations(ops).await?;
    a.sync(&mut server, false).await?;
    b.sync(&mut server, false).await?;

    // A looks at t1: blocked by t2 (this caches the dependency map)
    assert!(a.get_task(u1).await?.unwrap().is_blocked());

    // B completes t2 and syncs; A syncs
    let mut ops = Operations::new();
    let mut t2b = b.get_task(u2).await?.unwrap();
    t2b.set_status(Status::Completed, &mut ops)?;
    b.commit_operations(ops).await?;
    b.sync(&mut server, false).await?;
    a.sync(&mut server, false).await?;

    // the stored status of t2 on A is now completed ...
    assert_eq!(a.get_task(u2).await?.unwrap().get_status(), Status::Completed);
    // ... so t1 must no longer be blocked
    assert!(!a.get_task(u1).await?.unwrap().is_blocked(), "t1 still BLOCKED after the sync that completed its dependency");
    Ok(())
}
