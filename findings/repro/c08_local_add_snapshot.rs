//! C08, local backend: add_snapshot is part of the Server interface every backend provides
use taskchampion::server::{AddVersionResult, NIL_VERSION_ID};
use taskchampion::{Server, ServerConfig};
use tempfile::TempDir;

#[tokio::test]
async fn local_server_add_snapshot_does_not_panic() {
    let tmp = TempDir::new().unwrap();
    let mut s: Box<dyn Server> = ServerConfig::Local { server_dir: tmp.path().to_path_buf() }.into_server().await.unwrap();
    let AddVersionResult::Ok(v1) = s.add_version(NIL_VERSION_ID, b"one".to_vec()).await.unwrap().0 else { panic!() };
    s.add_snapshot(v1, b"snap".to_vec()).await.unwrap();
    // a server may decline to keep snapshots; what it returns must belong to the version it names
    if let Some((v, data)) = s.get_snapshot().await.unwrap() {
        assert_eq!((v, data), (v1, b"snap".to_vec()));
    }
}
