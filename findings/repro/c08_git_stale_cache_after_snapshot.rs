#![cfg(all(feature = "server-git", not(target_arch = "wasm32")))]
//! pinned-tree repro: a handle that fetched newer versions through get_snapshot() (which calls
//! reset_to_remote but does not reload `meta`) accepts a version on a stale parent.
use std::path::Path;
use std::process::Command;
use taskchampion::server::{AddVersionResult, NIL_VERSION_ID};
use taskchampion::{Server, ServerConfig, Uuid};
use tempfile::TempDir;

fn init_bare(dir: &Path) {
    assert!(Command::new("git").args(["init", "--bare", "--quiet"]).arg(dir).status().unwrap().success());
}
async fn open(clone_dir: &Path, bare: &Path) -> Box<dyn Server> {
    ServerConfig::Git {
        local_path: clone_dir.to_path_buf(),
        branch: "main".into(),
        remote: Some(bare.to_str().unwrap().to_string()),
        local_only: false,
        encryption_secret: b"s".to_vec(),
        git_path: None,
    }
    .into_server()
    .await
    .unwrap()
}
async fn add(server: &mut Box<dyn Server>, parent: Uuid, data: &[u8]) -> AddVersionResult {
    server.add_version(parent, data.to_vec()).await.unwrap().0
}

#[tokio::test]
async fn stale_parent_rejected_after_get_snapshot() {
    let tmp = TempDir::new().unwrap();
    let bare = tmp.path().join("bare.git");
    init_bare(&bare);
    let mut a = open(&tmp.path().join("a"), &bare).await;
    let AddVersionResult::Ok(v1) = add(&mut a, NIL_VERSION_ID, b"one").await else { panic!() };
    // B opens when v1 is the latest
    let mut b = open(&tmp.path().join("b"), &bare).await;
    // A adds v2
    let AddVersionResult::Ok(v2) = add(&mut a, v1, b"two").await else { panic!() };
    // B looks for a snapshot (fetches the remote; there is none)
    assert!(b.get_snapshot().await.unwrap().is_none());
    // B tries to add on top of v1: must be rejected naming v2
    match add(&mut b, v1, b"fork").await {
        AddVersionResult::ExpectedParentVersion(p) => assert_eq!(p, v2),
        AddVersionResult::Ok(x) => panic!("version {x} accepted on stale parent {v1}: v1 now has two children"),
    }
}

#[tokio::test]
async fn stale_parent_rejected_after_add_snapshot() {
    let tmp = TempDir::new().unwrap();
    let bare = tmp.path().join("bare.git");
    init_bare(&bare);
    let mut a = open(&tmp.path().join("a"), &bare).await;
    let AddVersionResult::Ok(v1) = add(&mut a, NIL_VERSION_ID, b"one").await else { panic!() };
    let mut b = open(&tmp.path().join("b"), &bare).await;
    let AddVersionResult::Ok(v2) = add(&mut a, v1, b"two").await else { panic!() };
    // B stores a snapshot of v1 (fetches the remote, which now holds v2)
    b.add_snapshot(v1, b"snap".to_vec()).await.unwrap();
    match add(&mut b, v1, b"fork").await {
        AddVersionResult::ExpectedParentVersion(p) => assert_eq!(p, v2),
        AddVersionResult::Ok(x) => panic!("version {x} accepted on stale parent {v1}: v1 now has two children"),
    }
    // and v2 is still what follows v1
    match a.get_child_version(v1).await.unwrap() {
        taskchampion::server::GetVersionResult::Version { version_id, .. } => assert_eq!(version_id, v2),
        _ => panic!("v2 lost"),
    }
}
