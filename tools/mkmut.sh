#!/bin/sh
# usage: mkmut.sh <ID> <name> <expected-rule[,rule]> <description...>   (diff taken from /tmp/mw, then reset)
set -e
ID=$1; NAME=$2; EXP=$3; shift 3
mkdir -p /verif/mutants/$ID
OUT=/verif/mutants/$ID/$NAME.patch
{ echo "# seeded variant for $ID: $*"; echo "# expect: $EXP"; git -C /tmp/mw diff HEAD; } > $OUT
git -C /tmp/mw reset -q --hard HEAD
grep -c '^[-+][^-+]' $OUT
