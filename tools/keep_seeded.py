#!/usr/bin/env python3
"""Keep confirmed sub-agent changes under /verif/seeded/<ID>-<N>/ and (re)compute which of
this repository's rules report them.
usage: keep_seeded.py import <dir-with-out-files> <ID> <N>...   |   keep_seeded.py refresh [ID-N ...]
"""
import json
import os
import re
import shutil
import sys

V = os.path.dirname(os.path.dirname(os.path.abspath(__file__)))
sys.path.insert(0, os.path.join(V, "rules"))
os.environ.setdefault("TCVERIF_EVIDENCE", "/var/tmp/tcverif-ev")
import sensitivity  # noqa

SEEDED = os.path.join(V, "seeded")


def first_lines(path, n=40):
    try:
        return open(path).read().splitlines()[:n]
    except Exception:
        return []


def do_import(src, pid, ns):
    for n in ns:
        cj = os.path.join(src, "confirm%s.json" % n)
        if not os.path.exists(cj):
            print("no confirmation for", pid, n)
            continue
        conf = json.load(open(cj))
        if not conf.get("confirmed"):
            print("NOT confirmed:", pid, n)
            continue
        d = os.path.join(SEEDED, "%s-%s" % (pid, n))
        os.makedirs(d, exist_ok=True)
        shutil.copy(os.path.join(src, "mutant%s.diff" % n), os.path.join(d, "patch.diff"))
        shutil.copy(os.path.join(src, "demo%s.diff" % n), os.path.join(d, "demo.diff"))
        if os.path.exists(os.path.join(src, "notes%s.md" % n)):
            shutil.copy(os.path.join(src, "notes%s.md" % n), os.path.join(d, "notes.md"))
        meta = {
            "property": pid,
            "source": "independent sub-agent given only the property record and a scratch worktree",
            "confirmed_by": "tools/confirm_seeded.py in the scratch worktree: full suite with demo only (passes) and with demo+change (only the demo fails)",
            "confirmation": {k: conf[k] for k in ("failed_unchanged_plus_demo", "failed_mutant_plus_demo", "new_tests", "tests_seen_unchanged", "tests_seen_mutant") if k in conf},
            "what_it_needs": "see notes.md",
        }
        json.dump(meta, open(os.path.join(d, "meta.json"), "w"), indent=1)
        print("kept", d)


def refresh(which):
    names = sorted(n for n in os.listdir(SEEDED) if os.path.isdir(os.path.join(SEEDED, n))) if not which else which
    for name in names:
        d = os.path.join(SEEDED, name)
        mp = os.path.join(d, "meta.json")
        if not os.path.exists(mp):
            continue
        meta = json.load(open(mp))
        pid = meta["property"]
        if meta.get("obsolete"):
            print(name, "obsolete (kept for the record)")
            continue
        import props
        if pid not in props.PROPS:
            meta["detection"] = {"status": "property not claimed yet"}
        else:
            st, detail, viol = sensitivity.check_patch(pid, os.path.join(d, "patch.diff"))
            from tc.report import load_known
            kn = {e["key"] for e in load_known() if e.get("status") == "known"}
            viol = [v for v in viol if v["key"] not in kn]
            meta["detection"] = {"status": st, "rules": sorted({v["rule"] for v in viol}), "keys": [v["key"] for v in viol][:8],
                                 "check": "./check %s on a scratch copy with patch.diff applied (tools/keep_seeded.py refresh)" % pid}
        try:
            prov = json.load(open(os.path.join(SEEDED, "provenance.json")))
            if name in prov:
                meta["rule_provenance"] = prov[name]
        except Exception:
            pass
        json.dump(meta, open(mp, "w"), indent=1)
        print(name, meta["detection"]["status"], meta["detection"].get("rules"))


if __name__ == "__main__":
    if sys.argv[1] == "import":
        do_import(sys.argv[2], sys.argv[3], sys.argv[4:])
    else:
        refresh(sys.argv[2:])
