#!/usr/bin/env python3
"""Regenerate /verif/MANIFEST.json from rules/props.py (claimed properties) and
properties.jsonl (everything else goes to not_applicable with its reason)."""
import json
import os
import sys

V = os.path.dirname(os.path.dirname(os.path.abspath(__file__)))
sys.path.insert(0, os.path.join(V, "rules"))
import props  # noqa

ids = [json.loads(l)["id"] for l in open(os.path.join(V, "properties.jsonl"))]
checks = []
na = []
for i in ids:
    spec = props.PROPS.get(i)
    if not spec:
        na.append({"property_id": i, "reason": props.NOT_YET.get(i, "static rules for this property are not built yet; see DESIGN.md section 3 for the planned rules")})
        continue
    checks.append({
        "property_id": i,
        "quick_cmd": "./check %s --tier quick" % i,
        "thorough_cmd": "./check %s --tier thorough" % i,
        "evidence_file": "/verif/evidence/%s.json" % i,
        "replay_cmd_template": "./check %s --explain {path}" % i,
        "engine": "tcfacts+rules",
        "level_claimed": {
            "category": "other",
            "text": spec["explanation"] + " NOT decided: " + spec.get("not_decided", "") + ". The check decides these structural clauses (each a necessary condition of the property) on every path / call site of the current tree; it does not decide the behaviour as a whole.",
            "design_ref": "DESIGN.md section 3, %s" % i,
        },
        "level_note": "Trusted base: rustc's MIR construction and callee resolution (nightly rustc_private driver, mir_built, -Zmir-opt-level=0); dependency behaviour as documented (std, serde, rusqlite, ring, chrono, uuid); specification tables transcribed from docs/src/*.md in the rule modules; the frozen tables named in the evidence. "
                      + " ".join(spec.get("assumptions", [])),
        "technique": spec.get("technique", "static analysis: custom MIR-level rules (dominance, value-flow slicing, decision-table extraction, call-graph reachability) over facts from a rustc_private driver"),
    })
m = {
    "version": 1,
    "setup_cmd": "./setup.sh",
    "hooks": {
        "guard": "gothenburgbitfactory_taskchampion_verif",
        "enable": "none needed: the checks read the compiler's view of /repo (cargo +nightly check with the tcfacts driver as RUSTC_WORKSPACE_WRAPPER); no instrumentation is compiled into /repo",
        "baseline_off_cmd": "cd /repo && cargo test --workspace --no-fail-fast --offline",
        "source_commits": [],
        "add_only": True,
    },
    "engines": [
        {"name": "tcfacts", "path": "engine/tcfacts", "serves_properties": [c["property_id"] for c in checks],
         "kind_free_text": "rustc_private driver (nightly) dumping built MIR, resolved callees, ADT/trait/impl/const tables as JSON lines; never runs repository code"},
        {"name": "rules", "path": "rules", "serves_properties": [c["property_id"] for c in checks],
         "kind_free_text": "Python 3 (stdlib) static rule engine: normalised CFG, dominators, guards, backward value-flow slices, path tables; one rule module per theme"},
    ],
    "checks": checks,
    "notes": "Static analysis only: a rustc_private driver dumps MIR and resolved callees of /repo's current tree; Python rules decide structural necessary conditions of each property on every path / call site and report file:line, rule and construct. quick = all rules of the property on the current tree. thorough = the same plus, on scratch copies outside /repo and /verif, every still-compiling breaking variant kept for the property (mutants/<ID>: hand-written and reverse-of-fix; seeded/<ID>-*: confirmed changes from independent sub-agents) must be reported (a miss prints SENSITIVITY-MISS), and every behaviour-preserving refactoring in mutants/controls must leave the property's rules silent (SENSITIVITY-FALSE-ALARM otherwise); neither kind of line is a VIOLATION of /repo. Known findings: known-findings.json. See DESIGN.md sections 1 and 7.",
    "not_applicable": na,
}
json.dump(m, open(os.path.join(V, "MANIFEST.json"), "w"), indent=1)
print("claimed:", [c["property_id"] for c in checks])
print("not_applicable:", [n["property_id"] for n in na])
