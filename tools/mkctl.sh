#!/bin/sh
# usage: mkctl.sh <name> <description...>   (behaviour-preserving control; diff taken from /tmp/mw, then reset)
set -e
NAME=$1; shift
OUT=/verif/mutants/controls/$NAME.patch
{ echo "# CONTROL (behaviour-preserving refactoring): $*"; echo "# expect-silent: *"; git -C /tmp/mw diff HEAD; } > $OUT
git -C /tmp/mw reset -q --hard HEAD
grep -c '^[-+][^-+]' $OUT
