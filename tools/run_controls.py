#!/usr/bin/env python3
"""Run ALL properties' rules on each behaviour-preserving control variant; every property must
stay silent (apart from keys listed as known findings).  usage: run_controls.py [patch...]"""
import glob, os, shutil, subprocess, sys, tempfile
V = os.path.dirname(os.path.dirname(os.path.abspath(__file__)))
sys.path.insert(0, os.path.join(V, "rules"))
os.environ.setdefault("TCVERIF_EVIDENCE", "/var/tmp/tcverif-ev")
import sensitivity, props
from tc import extract
from tc.facts import Facts
from tc.report import Report, load_known

patches = sys.argv[1:] or sorted(glob.glob(os.path.join(V, "mutants", "controls", "*.patch")))
known = {(e["property"], e["key"]) for e in load_known() if e.get("status") == "known"}
bad = 0
for p in patches:
    scratch = tempfile.mkdtemp(prefix="tcverif-ctl-", dir=sensitivity.SCRATCH_ROOT)
    try:
        sensitivity.copy_repo("/repo", scratch)
        ok, out = sensitivity.apply_patch(scratch, p)
        if not ok:
            print(os.path.basename(p), "SKIPPED (does not apply)", out[:100]); continue
        try:
            fp, h, info = extract.ensure_facts(scratch)
        except extract.ExtractError as e:
            print(os.path.basename(p), "DOES NOT COMPILE", str(e)[-300:]); bad += 1; continue
        from tc.util import reset_caches
        reset_caches()
        F = Facts(fp)
        fired = []
        for pid, spec in sorted(props.PROPS.items()):
            R = Report(pid, "quick", 0)
            for rule in spec["rules"]:
                try:
                    rule(F, R)
                except Exception as e:
                    R.violation("engine", "internal-error", str(rule), repr(e))
            for v in R.violations:
                if (pid, v["key"]) not in known:
                    fired.append((pid, v["key"], v["message"][:160]))
        if fired:
            bad += 1
            print(os.path.basename(p), "FALSE ALARMS:")
            for f in fired:
                print("    ", f[0], f[1], "--", f[2])
        else:
            print(os.path.basename(p), "silent (all %d properties)" % len(props.PROPS))
    finally:
        shutil.rmtree(scratch, ignore_errors=True)
sys.exit(1 if bad else 0)
