#!/usr/bin/env python3
"""Confirm a sub-agent's seeded change in its scratch worktree (never in /repo):
  run A: demo only           -> the suite passes (only sync_server_tls fails)
  run B: demo + mutant       -> exactly the new demo test(s) fail, everything else passes
usage: confirm_seeded.py <ID> <N> [...]   (worktree /tmp/wt/<ID>, files out/mutantN.diff, out/demoN.diff)
writes /tmp/wt/<ID>/out/confirmN.json
"""
import json
import os
import re
import subprocess
import sys

BASE = json.load(open("/root/.vp/BASELINE.json"))
STABLE = set(BASE["stable_pass"])
ALWAYS_FAIL = {"sync_server_tls"}


def sh(cmd, cwd, **kw):
    return subprocess.run(cmd, cwd=cwd, shell=True, stdout=subprocess.PIPE, stderr=subprocess.STDOUT, text=True, **kw)


def clean(wt):
    sh("git checkout -q -- . && git clean -fdq -e out -e target", wt)


def run_suite(wt):
    env = dict(os.environ, CARGO_NET_OFFLINE="true")
    r = subprocess.run("cargo test --workspace --no-fail-fast --offline 2>&1", cwd=wt, shell=True, stdout=subprocess.PIPE, text=True, env=env)
    out = r.stdout
    res = {}
    for m in re.finditer(r"^test (\S+) \.\.\. (ok|FAILED|ignored)", out, re.M):
        res.setdefault(m.group(1), []).append(m.group(2))
    # a test whose own child process writes to stdout can break the "test x ... ok" line apart:
    # also read the "failures:" summaries
    for blk in re.finditer(r"^failures:\n((?:    \S+\n)+)", out, re.M):
        for name in blk.group(1).split():
            res.setdefault(name, []).append("FAILED")
    for m in re.finditer(r"^test (\S+) \.\.\. .*?\b(ok|FAILED)$", out, re.M):
        res.setdefault(m.group(1), []).append(m.group(2))
    compiled = "error: could not compile" not in out and "error[E" not in out
    return res, compiled, out


def known(name):
    last = name.split("::")[-1]
    return any(s.endswith("::" + name) or s.split("::", 1)[-1] == name for s in STABLE) or last in ALWAYS_FAIL


def main():
    pid = sys.argv[1]
    wt = "/tmp/wt/%s" % pid
    for n in sys.argv[2:]:
        mut = "%s/out/mutant%s.diff" % (wt, n)
        demo = "%s/out/demo%s.diff" % (wt, n)
        res = {"id": pid, "n": n}
        clean(wt)
        a = sh("git apply %s" % demo, wt)
        if a.returncode:
            res["error"] = "demo does not apply: " + a.stdout
            json.dump(res, open("%s/out/confirm%s.json" % (wt, n), "w"), indent=1)
            continue
        ra, ca, outa = run_suite(wt)
        fa = sorted(k for k, v in ra.items() if "FAILED" in v)
        new_tests = sorted(k for k in ra if not known(k))
        a = sh("git apply %s" % mut, wt)
        if a.returncode:
            res["error"] = "mutant does not apply on top of demo: " + a.stdout
            clean(wt)
            json.dump(res, open("%s/out/confirm%s.json" % (wt, n), "w"), indent=1)
            continue
        rb, cb, outb = run_suite(wt)
        fb = sorted(k for k, v in rb.items() if "FAILED" in v)
        clean(wt)
        res.update({
            "compiled_unchanged": ca, "compiled_mutant": cb,
            "tests_seen_unchanged": len(ra), "tests_seen_mutant": len(rb),
            "failed_unchanged_plus_demo": fa,
            "failed_mutant_plus_demo": fb,
            "new_tests": new_tests,
            "demo_passes_unchanged": ca and all(k.split("::")[-1] in ALWAYS_FAIL for k in fa),
            "demo_fails_with_mutant": cb and any(k in new_tests for k in fb),
            "existing_suite_passes_with_mutant": cb and all((k in new_tests) or k.split("::")[-1] in ALWAYS_FAIL for k in fb) and len(rb) >= len(ra),
        })
        res["confirmed"] = bool(res["demo_passes_unchanged"] and res["demo_fails_with_mutant"] and res["existing_suite_passes_with_mutant"])
        json.dump(res, open("%s/out/confirm%s.json" % (wt, n), "w"), indent=1)
        if not res["confirmed"]:
            open("%s/out/confirm%s.logA" % (wt, n), "w").write(outa[-20000:])
            open("%s/out/confirm%s.logB" % (wt, n), "w").write(outb[-20000:])
        print(pid, n, "confirmed" if res["confirmed"] else "NOT CONFIRMED", fa, fb, flush=True)


if __name__ == "__main__":
    main()
