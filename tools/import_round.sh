#!/bin/sh
# usage: import_round.sh <worktree-name e.g. R3-C10> <ID> <first new index>
# confirms out/mutant{1,2}.diff in the scratch worktree, keeps the confirmed ones as seeded/<ID>-<k>, removes the worktree
set -e
WT=$1; ID=$2; K=$3
cd /verif
python3 tools/confirm_seeded.py $WT 1 2 > /tmp/wt/confirm-$WT.log 2>&1 || true
D=/tmp/wt/imp-$WT; rm -rf $D; mkdir -p $D /tmp/wt/results/$WT
cp /tmp/wt/$WT/out/* /tmp/wt/results/$WT/ 2>/dev/null || true
for n in 1 2; do m=$((K+n-1)); for f in mutant demo; do [ -f /tmp/wt/$WT/out/$f$n.diff ] && cp /tmp/wt/$WT/out/$f$n.diff $D/$f$m.diff; done; [ -f /tmp/wt/$WT/out/notes$n.md ] && cp /tmp/wt/$WT/out/notes$n.md $D/notes$m.md; [ -f /tmp/wt/$WT/out/confirm$n.json ] && cp /tmp/wt/$WT/out/confirm$n.json $D/confirm$m.json; done
python3 tools/keep_seeded.py import $D $ID $K $((K+1))
git -C /repo worktree remove --force /tmp/wt/$WT
rm -rf $D
