#!/bin/sh
# usage: scratch.sh <name> <patch>...  -> /var/tmp/tcverif-scr-<name> = copy of /repo with the patches applied (remove it when done)
set -e
N=$1; shift
D=/var/tmp/tcverif-scr-$N
rm -rf $D; mkdir -p $D
rsync -a --exclude /target --exclude /.git /repo/ $D/
for p in "$@"; do patch -d $D -p1 --no-backup-if-mismatch -s -f -i $p; done
echo $D
