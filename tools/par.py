#!/usr/bin/env python3
"""Parallel regression of the checker itself (not part of any registered check).
  par.py seeded [ID-N ...]   every kept sub-agent change must be reported by its property's rules
  par.py mutants             every hand-written variant must be reported by the rule named in its header
  par.py controls [patch...] every behaviour-preserving control must leave all 20 properties silent
Each worker has its own extraction cache (copy of .cache/target) under /var/tmp/tcc-<k>, removed at the end."""
import glob, json, os, shutil, subprocess, sys
from concurrent.futures import ThreadPoolExecutor
V = os.path.dirname(os.path.dirname(os.path.abspath(__file__)))
N = int(os.environ.get("PAR_N", "6"))

def worker_env(k):
    d = "/var/tmp/tcc-%d" % k
    if not os.path.isdir(os.path.join(d, "target")):
        os.makedirs(d, exist_ok=True)
        subprocess.check_call(["cp", "-a", os.path.join(V, ".cache", "target"), os.path.join(d, "target")])
    env = dict(os.environ, TCVERIF_CACHE=d, TCVERIF_EVIDENCE="/var/tmp/tcverif-ev-%d" % k, TCVERIF_KEEP_FACTS="3")
    return env

def main():
    mode = sys.argv[1]
    jobs = []
    if mode == "seeded":
        names = sys.argv[2:] or sorted(n for n in os.listdir(os.path.join(V, "seeded")) if os.path.isdir(os.path.join(V, "seeded", n)))
        for n in names:
            mj = json.load(open(os.path.join(V, "seeded", n, "meta.json")))
            if mj.get("obsolete"):
                continue
            jobs.append((n, ["python3", os.path.join(V, "rules", "sensitivity.py"), mj["property"], os.path.join(V, "seeded", n, "patch.diff")]))
    elif mode == "mutants":
        for p in sorted(glob.glob(os.path.join(V, "mutants", "C*", "*.patch"))):
            pid = os.path.basename(os.path.dirname(p))
            jobs.append((pid + "/" + os.path.basename(p), ["python3", os.path.join(V, "rules", "sensitivity.py"), pid, p]))
    elif mode == "controls":
        ps = sys.argv[2:] or sorted(glob.glob(os.path.join(V, "mutants", "controls", "*.patch")))
        for p in ps:
            jobs.append((p, ["python3", os.path.join(V, "tools", "run_controls.py"), p]))
    envs = [worker_env(k) for k in range(N)]
    free = list(range(N))
    import threading
    lk = threading.Lock()
    bad = []
    def run(job):
        with lk:
            k = free.pop()
        try:
            r = subprocess.run(job[1], env=envs[k], stdout=subprocess.PIPE, stderr=subprocess.STDOUT, text=True)
            out = r.stdout.strip()
            if mode == "controls":
                okay = r.returncode == 0
                line = out[-1500:] if not okay else out.splitlines()[-1]
            else:
                first = out.splitlines()[0] if out else "?"
                okay = first.startswith("detected")
                line = first[:300]
            with lk:
                print(("ok   " if okay else "BAD  ") + os.path.basename(job[0]) + " :: " + line, flush=True)
                if not okay:
                    bad.append(job[0])
        finally:
            with lk:
                free.append(k)
    with ThreadPoolExecutor(N) as ex:
        list(ex.map(run, jobs))
    print("%d jobs, %d bad: %s" % (len(jobs), len(bad), bad))
    for k in range(N):
        shutil.rmtree("/var/tmp/tcc-%d" % k, ignore_errors=True)
        shutil.rmtree("/var/tmp/tcverif-ev-%d" % k, ignore_errors=True)
    sys.exit(1 if bad else 0)
main()
