"""C13: the sealing scheme is constants, call identities and dataflow: X1-X7."""
import re

from tc.facts import call_names, loc
from tc.flow import op_place
from tc.sym import SymExec, show, show_atom, show_path
from tc.util import bool_origin, guards_of, switch_true_edges, agg_sites, calls_matching, cfg_of, const_strs, flow_of, local_def, where
import roles as RL

ENC = "server::encryption"
SERVER = "server::types::Server"


def _has(v, pred, depth=0):
    if depth > 40:
        return False
    try:
        if pred(v):
            return True
    except (IndexError, TypeError):
        pass
    if isinstance(v, tuple):
        return any(_has(x, pred, depth + 1) for x in v if isinstance(x, tuple))
    return False


def _paths(F, R, rule, name):
    b = F.bodies.get(name)
    if b is None:
        R.missing(rule, name)
        return None, []
    try:
        return b, SymExec(b, cfg_of(b)).run()
    except Exception as e:
        R.violation(rule, name, "table-extraction", "cannot extract the path table: %s" % e, where(b))
        return b, []


def _const(F, name):
    c = F.consts.get(name)
    if c is None:
        return None
    return c.get("scalar", c.get("val"))


_VIEW = re.compile(r"::(as_ref|as_slice|as_bytes|deref|borrow|as_mut|as_str)$|^std::convert::AsRef::as_ref$|^std::ops::Deref::deref$")


def _only_view(v, param):
    """the value is the named parameter seen through reference-only conversions (as_ref, deref, ..):
    no call that could compute something else from it (trim, to_lowercase, hash, ..)"""
    for _ in range(12):
        if v == ("P", param):
            return True
        if v[0] == "F" and v[3] in (0, "0") and v[2] is None:      # newtype field: Secret(pub Vec<u8>)
            v = v[1]
            continue
        if v[0] == "C" and _VIEW.search(v[2]) and len(v[3]) == 1:
            v = v[3][0]
            continue
        return False
    return False


def rule_X1(F, R):
    R.begin("X1", "parameters: PBKDF2-HMAC-SHA256 with 600000 iterations over (salt, secret) from the constructor; ChaCha20-Poly1305 key; ENVELOPE_VERSION = 1, TASK_APP_ID = 1, AAD_LEN = 17; the secret reaches the KDF unmodified")
    want = {ENC + "::PBKDF2_ITERATIONS": "600000", ENC + "::ENVELOPE_VERSION": "1", ENC + "::TASK_APP_ID": "1", ENC + "::AAD_LEN": "17"}
    for k, v in want.items():
        got = _const(F, k)
        if got is None:
            R.missing("X1", "constant %s" % k)
        elif re.sub(r"_[ui]\w+$", "", str(got)) != v:
            R.violation("X1", k, "value", "%s = %s, documented %s" % (k.split("::")[-1], got, v), None)
        else:
            R.ok("X1", "%s = %s" % (k.split("::")[-1], v))
    kdf = RL.kdf_fn(F)
    b, paths = _paths(F, R, "X1", kdf or (ENC + "::Cryptor::derive_key"))
    okp = [p for p in paths if p.end[0] == "return" and p.ret[0] == "A" and p.ret[2] == "Ok"]
    if b is not None and not okp:
        R.violation("X1", b["path"], "no-ok-path", "derive_key has no successful path", where(b))
    for p in okp:
        der = [e for e in p.events if e["callee"].endswith("pbkdf2::derive")]
        w = where(b)
        if len(der) != 1:
            R.violation("X1", b["path"], "kdf-call", "derive_key does not call ring::pbkdf2::derive exactly once", w)
            continue
        a = der[0]["args"]
        if a[0] != ("K", "static:ring::pbkdf2::PBKDF2_HMAC_SHA256"):
            R.violation("X1", b["path"], "kdf-algorithm", "the KDF algorithm is %s, documented PBKDF2_HMAC_SHA256" % show(a[0]), w)
        elif not _has(a[1], lambda v: v == ("K", ENC + "::PBKDF2_ITERATIONS")) or _has(a[1], lambda v: v[0] == "B"):
            R.violation("X1", b["path"], "kdf-iterations", "the iteration count passed to the KDF is %s, not PBKDF2_ITERATIONS" % show(a[1]), w)
        elif not _only_view(a[2], "salt"):
            R.violation("X1", b["path"], "kdf-salt", "the KDF salt is %s, not the caller's salt" % show(a[2]), w)
        elif not _only_view(a[3], "secret"):
            R.violation("X1", b["path"], "kdf-secret", "the KDF secret is %s, not the caller's secret" % show(a[3]), w)
        else:
            R.ok("X1", "pbkdf2::derive(PBKDF2_HMAC_SHA256, PBKDF2_ITERATIONS, salt, secret, key)", w)
        kl = [e for e in p.events if e["callee"].endswith("::key_len")]
        uk = [e for e in p.events if e["callee"].endswith("UnboundKey::new")]
        alg = ("K", "static:ring::aead::CHACHA20_POLY1305")
        if len(uk) != 1 or uk[0]["args"][0] != alg or not kl or kl[0]["args"][0] != alg:
            R.violation("X1", b["path"], "aead-algorithm", "the AEAD key is not a ChaCha20-Poly1305 key of that algorithm's length", w)
        elif not _has(uk[0]["args"][1], lambda v: v[0] == "M" and v[1] == der[0]["id"]):
            R.violation("X1", b["path"], "key-not-derived", "the AEAD key bytes are not the KDF output", w)
        else:
            R.ok("X1", "UnboundKey::new(CHACHA20_POLY1305, derived bytes)", w)
    # Cryptor::new passes its parameters
    b, paths = _paths(F, R, "X1", ENC + "::Cryptor::new")
    for p in paths:
        if p.end[0] == "return" and p.ret[0] == "A" and p.ret[2] == "Ok":
            dk = [e for e in p.events if e["callee"] == kdf]
            if len(dk) == 1 and dk[0]["args"] == (("P", "salt"), ("P", "secret")):
                R.ok("X1", "Cryptor::new: key = derive_key(salt, secret)", where(b))
            else:
                R.violation("X1", b["path"], "constructor", "Cryptor::new does not derive its key from (salt, secret)", where(b))
    # the Secret wrapper is the identity
    for p_, b_ in F.bodies.items():
        if p_.startswith("<" + ENC + "::Secret as ") and (p_.endswith("::from") or p_.endswith("::as_ref")):
            ps = [q for q in SymExec(b_, cfg_of(b_)).run() if q.end[0] == "return"]
            pname = b_["locals"][1].get("name") or "_1"
            for q in ps:
                evs = [e for e in q.events]
                if p_.endswith("::from"):
                    ok = q.ret == ("A", ENC + "::Secret", "Secret", ((0, ("P", pname)),)) and not evs
                else:
                    ok = q.ret in (("F", ("P", pname), None, 0), ("F", ("P", pname), "Secret", 0)) or (q.ret[0] == "C" and not _has(q.ret, lambda v: v[0] == "M"))
                if ok:
                    R.ok("X1", "%s is the identity on the secret bytes" % p_, where(b_))
                else:
                    R.violation("X1", p_, "secret-altered", "the secret is transformed before key derivation (%s): different secrets become interchangeable / the documented key is not derived" % show(q.ret)[:120], where(b_))


def rule_X2(F, R):
    R.begin("X2", "AAD: derives from TASK_APP_ID and the bytes of the version id the data belongs to and from nothing else (decided for any layout code); where the layout code is of the recognised index-write shape: byte 0 = TASK_APP_ID, bytes 1.. = the 16 id bytes, length AAD_LEN")
    aadf = RL.aad_fn(F)
    b = F.bodies.get(aadf) if aadf else None
    if b is None:
        R.missing("X2", "the function returning ring::aead::Aad<[u8; N]>")
        return
    fl = flow_of(b)
    cc = cfg_of(b)
    w = where(b)
    # shape-independent core: the body uses TASK_APP_ID, takes as_bytes() of the version id
    # parameter, and of no other id
    uses_app = False
    for i in sorted(cc.reach):
        for st in cc.blocks[i]["s"]:
            if st["k"] == "assign":
                for key in ("o", "a", "b"):
                    o = st["r"].get(key)
                    if isinstance(o, dict) and "k" in o and o["k"].get("named") == ENC + "::TASK_APP_ID":
                        uses_app = True
                for o in st["r"].get("ops", []):
                    if "k" in o and o["k"].get("named") == ENC + "::TASK_APP_ID":
                        uses_app = True
    asb = [(i, t) for i, t in cc.calls() if any(n.endswith("::as_bytes") for n in call_names(t))]
    from_vid = []
    foreign = []
    for (i, t) in asb:
        sl = fl.slice_operand(t["args"][0])
        names = {(b["locals"][r[1]].get("name") or "") for r in sl.roots if r[0] == "param"}
        if "version_id" in names and not sl.root_calls():
            from_vid.append(i)
        else:
            foreign.append(sorted(n for (_bb, n) in sl.root_calls()) or sorted(names))
    if not uses_app:
        R.violation("X2", b["path"], "app-id-byte", "the AAD is built without TASK_APP_ID", w)
        return
    if not from_vid:
        R.violation("X2", b["path"], "version-id-bytes", "the AAD is built without the bytes of the version id the data belongs to (%s)" % (foreign[:1] or "no as_bytes()"), w)
        return
    if foreign:
        R.violation("X2", b["path"], "aad-foreign-input", "the AAD also takes id bytes from %s" % foreign[0], w)
        return
    R.ok("X2", "aad derives from TASK_APP_ID and version_id.as_bytes() only", w)
    # recognised layout
    _b, paths = _paths(F, R, "X2", aadf)
    for p in paths:
        if p.end[0] != "return":
            continue
        cps = [e for e in p.events if e["callee"].endswith("copy_from_slice")]
        idx0 = _has(p.ret, lambda v: v[0] == "O" and any(k == ("idx", "0_usize") for (k, _x) in v[2]))
        if not idx0:
            R.info("X2", "layout code is not of the index-write shape; exact byte layout not decided on this tree")
            continue
        ok0 = _has(p.ret, lambda v: v[0] == "O" and (("idx", "0_usize"), ("K", ENC + "::TASK_APP_ID")) in v[2])
        good = False
        for e in cps:
            dst, src = e["args"][0], e["args"][1]
            from1 = _has(dst, lambda v: v[0] == "A" and v[1].endswith("RangeFrom") and dict(v[3]).get("start") == ("K", "1_usize"))
            srcok = src[0] == "C" and src[2].endswith("::as_bytes") and src[3] == (("P", "version_id"),)
            if from1 and srcok:
                good = True
        alen = re.sub(r"_[ui]\w+$", "", str(_const(F, ENC + "::AAD_LEN")))
        if not ok0:
            R.violation("X2", b["path"], "app-id-byte", "AAD byte 0 is not TASK_APP_ID: %s" % show(p.ret)[:200], w)
        elif not good:
            R.violation("X2", b["path"], "version-id-bytes", "AAD bytes 1.. are not the bytes of the version id the data belongs to", w)
        elif not _has(p.ret, lambda v: v[0] == "Rep" and (v[2].endswith("AAD_LEN") or v[2] == alen)):
            R.violation("X2", b["path"], "aad-length", "the AAD buffer is not AAD_LEN bytes", w)
        else:
            R.ok("X2", "aad = [TASK_APP_ID] ++ version_id.as_bytes()", w)


def rule_X3(F, R):
    R.begin("X3", "seal: fresh random nonce filled before use; AAD = make_aad(version id of the input); tag appended; envelope = [ENVELOPE_VERSION] ++ nonce ++ ciphertext")
    b, paths = _paths(F, R, "X3", ENC + "::Cryptor::seal")
    oks = [p for p in paths if p.end[0] == "return" and p.ret[0] == "A" and p.ret[2] == "Ok"]
    if b is not None and len(oks) != 1:
        R.violation("X3", b["path"], "ok-paths", "seal has %d successful paths (expected 1)" % len(oks), where(b))
    for p in oks:
        w = where(b)
        fills = [e for e in p.events if e["callee"].endswith("SecureRandom::fill")]
        nonce = [e for e in p.events if e["callee"].endswith("Nonce::assume_unique_for_key")]
        seal = [e for e in p.events if "seal_in_place" in e["callee"]]
        _fb, _tb = RL.envelope_fns(F)
        aad = [e for e in p.events if e["callee"] == RL.aad_fn(F)]
        ext = [e for e in p.events if e["callee"].endswith("extend_from_slice")]
        tb = [e for e in p.events if e["callee"] == _tb]
        vid = ("F", ("P", "payload"), None, "version_id")
        helper_nonce = None
        if not fills and len(nonce) == 1:
            # the fresh nonce may come from a helper of the module: its only successful path fills a zeroed buffer from
            # self.rng once and returns that buffer
            for e in p.events:
                hb = F.bodies.get(e["callee"])
                if hb is None or not e["callee"].startswith(ENC) or e["callee"] == b["path"]:
                    continue
                try:
                    hps = [q for q in SymExec(hb, cfg_of(hb), max_paths=500).run() if q.end[0] == "return" and q.ret[0] == "A" and q.ret[2] == "Ok"]
                except Exception:
                    continue
                if len(hps) != 1:
                    continue
                hf = [x for x in hps[0].events if x["callee"].endswith("SecureRandom::fill")]
                if len(hf) != 1 or not _has(hf[0]["args"][0], lambda v: v == ("F", ("P", "self"), None, "rng")):
                    continue
                rv = hps[0].ret[3][0][1]
                if rv[0] == "M" and rv[1] == hf[0]["id"] and rv[2][0] == "Rep" and _has(e["args"], lambda v: v == ("P", "self")):
                    helper_nonce = e
        if helper_nonce is not None and len(seal) == 1 and len(aad) == 1:
            nb = nonce[0]["args"][0]
            if not _has(nb, lambda v: v[0] == "C" and v[1] == helper_nonce["id"]):
                R.violation("X3", b["path"], "nonce-not-fresh", "the nonce given to the AEAD is %s, not the buffer filled by the system RNG in %s" % (show(nb), helper_nonce["callee"]), w)
                continue
            if not any(a_ == vid for a_ in aad[0]["args"]):
                R.violation("X3", b["path"], "aad-binding", "the AAD is not built from the version id attached to the payload", w)
                continue
            sa = seal[0]["args"]
            if not (_has(sa[1], lambda v: v[0] == "C" and v[1] == nonce[0]["id"]) and _has(sa[2], lambda v: v[0] == "C" and v[1] == aad[0]["id"]) and _has(sa[3], lambda v: v == ("F", ("P", "payload"), None, "payload"))):
                R.violation("X3", b["path"], "aead-args", "seal_in_place is not called with (fresh nonce, make_aad(..), the payload)", w)
                continue
            if not any(_has(e["args"][1], lambda v: v[0] == "C" and v[1] == seal[0]["id"]) for e in ext):
                R.violation("X3", b["path"], "tag-not-appended", "the authentication tag is not appended to the ciphertext", w)
                continue
            if len(tb) != 1:
                R.violation("X3", b["path"], "envelope", "the sealed value is not produced by the envelope encoder", w)
                continue
            env = tb[0]["args"][0]
            f = dict(env[3]) if env[0] == "A" else {}
            if not _has(f.get("nonce", ("?",)), lambda v: v[0] == "C" and v[1] == helper_nonce["id"]) or not _has(f.get("payload", ("?",)), lambda v: v[0] == "M"):
                R.violation("X3", b["path"], "envelope-fields", "the envelope does not carry the nonce that was used and the sealed payload", w)
                continue
            r = dict(p.ret[3][0][1][3])
            if r.get("version_id") != vid or not _has(r.get("payload"), lambda v: v[0] == "C" and v[1] == tb[0]["id"]):
                R.violation("X3", b["path"], "result", "seal does not return Sealed{same version id, envelope bytes}", w)
                continue
            R.ok("X3", "seal: helper fills the nonce -> make_aad(version_id) -> seal_in_place -> append tag -> envelope", w)
            continue
        if len(fills) != 1 or len(nonce) != 1 or len(seal) != 1 or len(aad) != 1:
            R.violation("X3", b["path"], "shape", "seal does not consist of one fill, one nonce, one make_aad and one seal_in_place", w)
            continue
        nb = nonce[0]["args"][0]
        if not (nb[0] == "M" and nb[1] == fills[0]["id"] and nb[2][0] == "Rep"):
            R.violation("X3", b["path"], "nonce-not-fresh", "the nonce given to the AEAD is %s, not the buffer just filled by the system RNG (constant or reused nonce)" % show(nb), w)
            continue
        if not _has(fills[0]["args"][0], lambda v: v == ("F", ("P", "self"), None, "rng")):
            R.violation("X3", b["path"], "rng", "the nonce is not filled from the Cryptor's SystemRandom", w)
            continue
        if not any(a_ == vid for a_ in aad[0]["args"]):
            R.violation("X3", b["path"], "aad-binding", "the AAD is built from %s, not from the version id attached to the payload" % show(aad[0]["args"][1]), w)
            continue
        sa = seal[0]["args"]
        if not (_has(sa[1], lambda v: v[0] == "C" and v[1] == nonce[0]["id"]) and _has(sa[2], lambda v: v[0] == "C" and v[1] == aad[0]["id"]) and _has(sa[3], lambda v: v == ("F", ("P", "payload"), None, "payload"))):
            R.violation("X3", b["path"], "aead-args", "seal_in_place is not called with (fresh nonce, make_aad(..), the payload)", w)
            continue
        if not any(_has(e["args"][1], lambda v: v[0] == "C" and v[1] == seal[0]["id"]) for e in ext):
            R.violation("X3", b["path"], "tag-not-appended", "the authentication tag is not appended to the ciphertext", w)
            continue
        if len(tb) != 1:
            R.violation("X3", b["path"], "envelope", "the sealed value is not produced by the envelope encoder", w)
            continue
        env = tb[0]["args"][0]
        f = dict(env[3]) if env[0] == "A" else {}
        if f.get("nonce") != nb or not _has(f.get("payload", ("?",)), lambda v: v[0] == "M"):
            R.violation("X3", b["path"], "envelope-fields", "the envelope does not carry the nonce that was used and the sealed payload", w)
            continue
        r = dict(p.ret[3][0][1][3])
        if r.get("version_id") != vid or not _has(r.get("payload"), lambda v: v[0] == "C" and v[1] == tb[0]["id"]):
            R.violation("X3", b["path"], "result", "seal does not return Sealed{same version id, envelope bytes}", w)
            continue
        R.ok("X3", "seal: fill -> nonce -> make_aad(version_id) -> seal_in_place -> append tag -> envelope", w)
    # envelope writer order
    tbn = RL.envelope_fns(F)[1]
    b, paths = _paths(F, R, "X3", tbn or (ENC + "::Envelope::to_bytes"))
    for p in paths:
        if p.end[0] != "return":
            continue
        seq = []
        for e in p.events:
            if e["callee"].endswith("Vec::<T, A>::push"):
                seq.append(("push", e["args"][1]))
            elif e["callee"].endswith("extend_from_slice"):
                seq.append(("extend", e["args"][1]))
        want = [("push", ("K", ENC + "::ENVELOPE_VERSION")), ("extend", ("F", ("P", "self"), None, "nonce")), ("extend", ("F", ("P", "self"), None, "payload"))]
        if seq == want:
            R.ok("X3", "envelope bytes = [ENVELOPE_VERSION] ++ nonce ++ payload", where(b))
        else:
            R.violation("X3", b["path"], "envelope-layout", "envelope bytes are written as %s" % [(k, show(v)) for k, v in seq], where(b))


def rule_X4(F, R):
    R.begin("X4", "unseal: too-short and wrong-version envelopes are rejected; nonce = bytes[1..1+NONCE_LEN], payload = bytes[1+NONCE_LEN..]; an AEAD failure is an error; the returned payload is the AEAD output")
    fbn = RL.envelope_fns(F)[0]
    b, paths = _paths(F, R, "X4", fbn or (ENC + "::Envelope::from_bytes"))
    nl = ("F", ("B", "AddWithOverflow", ("K", "1_usize"), ("K", "ring::aead::NONCE_LEN")), None, 0)
    for p in paths:
        if p.end[0] != "return" or not (p.ret[0] == "A" and p.ret[2] == "Ok"):
            continue
        w = where(b)
        conds = {a: o for (a, o, _bb) in p.atoms}
        short = [o for a, o in conds.items() if a[0] == "bin" and a[1] in ("Le", "Lt") and _has(a[2], lambda v: v[0] == "C" and v[2].endswith("::len"))]
        ver_ne = [(a, o) for a, o in conds.items() if a[0] == "bin" and a[1] in ("Ne", "Eq") and _has(a, lambda v: v == ("K", ENC + "::ENVELOPE_VERSION")) and _has(a, lambda v: v[0] == "F" and v[3] == "[0_usize]")]
        other_ver = [(a, o) for a, o in conds.items() if a[0] == "bin" and a[1] not in ("Ne", "Eq") and _has(a, lambda v: v == ("K", ENC + "::ENVELOPE_VERSION"))]
        if short != [False]:
            R.violation("X4", b["path"], "length-check", "an envelope is accepted without the `len <= 1 + NONCE_LEN` rejection", w)
        elif other_ver or len(ver_ne) != 1 or not ((ver_ne[0][0][1] == "Ne" and ver_ne[0][1] is False) or (ver_ne[0][0][1] == "Eq" and ver_ne[0][1] is True)):
            R.violation("X4", b["path"], "version-check", "an envelope is accepted unless `%s`: the format byte must be exactly ENVELOPE_VERSION (it is not covered by the AEAD)" % (show_atom((other_ver or ver_ne or [(("val", ("?", "no test")), 0)])[0][0])), w)
        else:
            f = dict(p.ret[3][0][1][3])
            n_ok = f.get("nonce", ("?",))[0] == "C" and _has(f["nonce"], lambda v: v[0] == "A" and v[1].endswith("ops::Range") and dict(v[3]).get("start") == ("K", "1_usize") and dict(v[3]).get("end") == nl)
            p_ok = f.get("payload", ("?",))[0] == "C" and _has(f["payload"], lambda v: v[0] == "A" and v[1].endswith("RangeFrom") and dict(v[3]).get("start") == nl)
            if not (n_ok and p_ok):
                # the same cut written as `let (header, payload) = buf.split_at(1 + NONCE_LEN)`; nonce = header[1..]
                def _hdr_len(v):
                    if v == nl or v == ("B", "AddWithOverflow", ("K", "1_usize"), ("K", "ring::aead::NONCE_LEN")):
                        return True
                    if v[0] == "K" and isinstance(v[1], str):
                        cst = F.consts.get(v[1])
                        nlc = F.consts.get("ring::aead::NONCE_LEN") or {}
                        want_ = str(1 + int(nlc.get("scalar", 12)))
                        return bool(cst and str(cst.get("scalar")) == want_)
                    return False
                def _split(v):
                    return v[0] == "C" and isinstance(v[2], str) and v[2].endswith("split_at") and len(v[3]) == 2 and v[3][0] == ("P", "buf") and _hdr_len(v[3][1])
                nv, pv = f.get("nonce", ("?",)), f.get("payload", ("?",))
                n_ok2 = (nv[0] == "C" and isinstance(nv[2], str) and nv[2].endswith("Index::index") and nv[3][0][0] == "F" and _split(nv[3][0][1]) and nv[3][0][3] == 0
                         and nv[3][1][0] == "A" and nv[3][1][1].endswith("RangeFrom") and dict(nv[3][1][3]).get("start") == ("K", "1_usize"))
                p_ok2 = pv[0] == "F" and _split(pv[1]) and pv[3] == 1
                if n_ok2 and p_ok2:
                    n_ok = p_ok = True
            if n_ok and p_ok:
                R.ok("X4", "from_bytes: len > 1+NONCE_LEN ∧ byte0 == ENVELOPE_VERSION -> nonce [1..1+N], payload [1+N..]", w)
            else:
                R.violation("X4", b["path"], "slices", "nonce/payload are not cut as [1..1+NONCE_LEN] / [1+NONCE_LEN..]", w)
    b, paths = _paths(F, R, "X4", ENC + "::Cryptor::unseal")
    vid = ("F", ("P", "payload"), None, "version_id")
    for p in paths:
        if p.end[0] != "return":
            continue
        w = where(b)
        op = [e for e in p.events if e["callee"].endswith("::open_in_place")]
        fb = [e for e in p.events if e["callee"] == fbn]
        aad = [e for e in p.events if e["callee"] == RL.aad_fn(F)]
        isok = p.ret[0] == "A" and p.ret[2] == "Ok"
        if isok:
            if len(op) != 1 or len(fb) != 1 or len(aad) != 1:
                R.violation("X4", b["path"], "shape", "unseal succeeds without exactly one from_bytes, make_aad and open_in_place", w)
                continue
            okatoms = {a: o for (a, o, _bb) in p.atoms}
            opened_ok = any(a[0] == "variant" and o == "Ok" and _has(a[1], lambda v: v[0] == "C" and v[1] == op[0]["id"]) for a, o in okatoms.items())
            if not opened_ok:
                R.violation("X4", b["path"], "open-failure-ignored", "unseal can succeed although open_in_place did not return Ok (tampered data would be returned)", w)
                continue
            if not any(a_ == vid for a_ in aad[0]["args"]):
                R.violation("X4", b["path"], "aad-binding", "unseal authenticates against %s, not the version id the caller expects" % show(aad[0]["args"][-1]), w)
                continue
            oa = op[0]["args"]
            env = ("C", fb[0]["id"])
            nonce_ok = _has(oa[1], lambda v: v[0] == "M" and _has(v, lambda z: z[0] == "Rep")) or _has(oa[1], lambda v: v[0] == "F" and v[3] == "nonce")
            cps = [e for e in p.events if e["callee"].endswith("copy_from_slice") and _has(e["args"][1], lambda v: v[0] == "F" and v[3] == "nonce" and _has(v, lambda z: z[0] == "C" and z[1] == fb[0]["id"]))]
            if not cps:
                R.violation("X4", b["path"], "nonce-source", "the nonce used for opening is not the envelope's nonce", w)
                continue
            if not _has(oa[3], lambda v: v[0] == "F" and v[3] == "payload" and _has(v, lambda z: z[0] == "C" and z[1] == fb[0]["id"])):
                R.violation("X4", b["path"], "ciphertext-source", "the bytes being opened are not the envelope's payload", w)
                continue
            # acceptance set: seal accepts every payload (also the empty one, whose ciphertext is exactly the
            # tag), so unseal may succeed only under from_bytes-Ok and open_in_place-Ok; the one extra condition
            # that cannot reject anything seal produced is `len(ciphertext) < tag_len` (the AEAD refuses that anyway)
            extra = []
            for a, o in okatoms.items():
                if a[0] == "variant" and o in ("Ok", "Continue") and (_has(a[1], lambda v: v[0] == "C" and v[1] in (op[0]["id"], fb[0]["id"]))):
                    continue
                if a[0] == "bin" and _has(a, lambda v: v[0] == "C" and v[2].endswith("::tag_len")) and _has(a, lambda v: v[0] == "C" and v[2].endswith("::len")):
                    len_left = _has(a[2], lambda v: v[0] == "C" and v[2].endswith("::len"))
                    harmless = (a[1], len_left, o) in (("Lt", True, False), ("Ge", True, True), ("Gt", False, False), ("Le", False, True))
                    if harmless:
                        continue
                extra.append((a, o))
            if extra:
                R.violation("X4", b["path"], "extra-acceptance-condition", "unseal succeeds only if additionally `%s` = %s: a payload that seal produced (e.g. the empty payload, whose ciphertext is exactly the tag) is stored but can never be read back" % (show_atom(extra[0][0])[:140], extra[0][1]), w)
                continue
            r = dict(p.ret[3][0][1][3])
            pl = r.get("payload", ("?",))
            from_open = _has(pl, lambda v: v[0] == "C" and v[1] == op[0]["id"])
            if r.get("version_id") != vid or not from_open:
                R.violation("X4", b["path"], "result", "unseal returns %s instead of the AEAD output" % show(pl)[:160], w)
                continue
            R.ok("X4", "unseal: from_bytes -> open_in_place(nonce, make_aad(version_id), payload) -> plaintext", w)
        else:
            R.ok("X4", "error path: %s" % " ∧ ".join("%s=%s" % (show_atom(a)[:50], o) for a, o, _ in p.atoms[-1:]), w)


# ---------------------------------------------------------------------------------------
# servers

REMOTE = ("server::sync", "server::cloud::server", "server::gitsync")
SINKS = [(r"reqwest::.*RequestBuilder::body$", 1), (r"server::cloud::service::Service::put$", 2), (r"^std::fs::write$", 1),
         (r"^serde_json::(ser::)?to_writer", 1), (r"std::io::Write::write_all$", 1), (r"RequestBuilder::json$", 1), (r"^serde_json::(ser::)?to_vec", 0), (r"std::fs::File.*::write", 1)]
PLAINTEXT_NAME = re.compile(r"history_segment|snapshot|payload|segment|plaintext")


def _in_remote(bp):
    return any(bp.startswith(m) or ("<" + m) in bp or (" " + m) in bp for m in REMOTE)


def remote_impls(F):
    out = []
    for im in F.impls_of_trait.get(SERVER, []):
        if any(m in im["self"] for m in ("server::sync::", "server::cloud::server::", "server::gitsync::")):
            out.append(im)
    return out


def rule_X5(F, R):
    R.begin("X5", "who may send: every byte handed to a network/file/object-store sink in a remote backend derives from Cryptor::seal (or is key-derivation metadata: salt, ids); every history segment / snapshot handed back derives from Cryptor::unseal")
    stop = lambda t: any(x.endswith("Cryptor::seal") or x.endswith("Cryptor::gen_salt") for x in call_names(t))
    nsinks = 0
    for bp, b in sorted(F.bodies.items()):
        if not _in_remote(bp):
            continue
        c = cfg_of(b)
        fl = None
        for i, t in c.calls():
            for n in call_names(t):
                hit = [ai for (rx, ai) in SINKS if re.search(rx, n)]
                if not hit:
                    continue
                ai = hit[0]
                if ai >= len(t["args"]):
                    continue
                fl = fl or flow_of(b)
                sl = fl.slice_operand(t["args"][ai], stop=stop)
                nsinks += 1
                bad = []
                sealed = False
                for r in sl.roots:
                    if r[0] == "call":
                        if r[2].endswith("Cryptor::seal"):
                            sealed = True
                        elif r[2].endswith("Cryptor::gen_salt") or r[2].endswith("::nil") or r[2].endswith("::new_v4"):
                            pass
                        else:
                            bad.append("result of %s" % r[2])
                    elif r[0] in ("upvar", "param"):
                        nm = str(r[1]) + " " + " ".join(str(e[2]) for e in r[2] if e[0] == "f")
                        if r[0] == "param":
                            nm = (b["locals"][r[1]].get("name") or "") + " " + " ".join(str(e[2]) for e in r[2] if e[0] == "f")
                        if PLAINTEXT_NAME.search(nm):
                            bad.append("unsealed %s" % nm.strip())
                if bad:
                    R.violation("X5", F.owner(bp), "unsealed-data-to-%s" % n.split("::")[-1], "%s at %s is given %s: task content would leave the host unsealed" % (n.split("::")[-1], loc(t["sp"]), bad[0]), where(b, i))
                else:
                    R.ok("X5", "sink %s <- %s" % (n.split("::")[-1], "seal(..)" if sealed else "metadata only"), where(b, i))
                break
    R.floor("X5", "sink call sites in the remote backends", nsinks, 8)
    # the plaintext parameters must reach seal (the payload that is sealed is the caller's data)
    for im in remote_impls(F):
        for it in im["items"]:
            if it["name"] not in ("add_version", "add_snapshot"):
                continue
            b = F.real_body(it["path"])
            cone = F.reachable_from([b["path"]], stop=lambda q: not _in_remote(q))
            seals = 0
            for q in cone:
                if not _in_remote(q):
                    continue
                for (_i, t) in F.calls_in.get(q, ()):
                    if any(n.endswith("Cryptor::seal") for n in call_names(t)):
                        seals += 1
            if seals:
                R.ok("X5", "%s::%s seals its payload (%d seal site(s) in its cone)" % (im["self"], it["name"], seals), where(b))
            else:
                R.violation("X5", it["path"], "never-sealed", "%s of %s never calls Cryptor::seal" % (it["name"], im["self"]), where(b))
    # sources
    stopu = lambda t: any(x.endswith("Cryptor::unseal") for x in call_names(t)) or _remote_helper(F, t) is not None
    nsrc = 0
    for bp, b in sorted(F.bodies.items()):
        if not _in_remote(bp):
            continue
        c = cfg_of(b)
        for (i, j, st) in agg_sites(c, "GetVersionResult", "Version"):
            fl = flow_of(b)
            idx = st["r"]["fields"].index("history_segment")
            sl = fl.slice_operand(st["r"]["ops"][idx], stop=stopu)
            nsrc += 1
            _src_check(F, R, b, sl, st["sp"], "GetVersionResult::Version.history_segment", stopu)
    for im in remote_impls(F):
        for it in im["items"]:
            if it["name"] != "get_snapshot":
                continue
            b = F.real_body(it["path"])
            fl = flow_of(b)
            # _0 = Ok(Some((version, payload)))
            sl = fl.slice_local(0, proj=(("dc", "Ok"), ("f", 0, None), ("dc", "Some"), ("f", 0, None), ("f", 1, None)), stop=stopu)
            nsrc += 1
            _src_check(F, R, b, sl, b["sp"], "get_snapshot payload", stopu)
    R.floor("X5", "returned payload sites examined", nsrc, 6)


def _src_check(F, R, b, sl, sp, what, stopu, depth=0):
    bad = []
    uns = False
    for r in sl.roots:
        if r[0] == "call":
            if r[2].endswith("Cryptor::unseal"):
                uns = True
            else:
                hb = F.real_body(r[2]) if r[2] in F.bodies else None
                hb = hb or _find(F, r[2])
                if hb is not None and _in_remote(hb["path"]) and depth < 2:
                    # helper: its returned payload must come from unseal
                    hfl = flow_of(hb)
                    okh = False
                    for prefix in _ret_prefixes(F, hb):
                        proj = prefix + tuple(e for e in r[3])
                        hs = hfl.slice_local(0, proj=proj, stop=stopu)
                        sub_bad = [x for x in hs.roots if (x[0] == "call" and not x[2].endswith("Cryptor::unseal")) or x[0] in ("param", "upvar")]
                        if any(x[0] == "call" and x[2].endswith("Cryptor::unseal") for x in hs.roots) and not sub_bad:
                            okh = True
                    if okh:
                        uns = True
                    else:
                        bad.append("result of %s" % r[2])
                else:
                    bad.append("result of %s" % r[2])
        elif r[0] in ("upvar", "param"):
            bad.append("%s %s" % (r[0], r[1]))
    if bad or not uns:
        R.violation("X5", b["owner_fn"], "unopened-data-returned:%s" % what.split(".")[0], "%s derives from %s rather than from Cryptor::unseal: unauthenticated bytes would be handed to the replica" % (what, bad or "nothing sealed"), where(b, sp=sp))
    else:
        R.ok("X5", "%s <- unseal(..)" % what, where(b, sp=sp))


def _find(F, name):
    nn = re.sub(r"::<[^>]*>", "", name)
    for p in F.bodies:
        if re.sub(r"::<[^>]*>", "", p) == nn:
            return F.real_body(p)
    return None


def _id_role(F, b, fl, operand, c, rest=(), depth=0):
    """role of the version id that binds a sealed value: 'parent' | 'own' | '?..'"""
    uhf = RL.uuid_header_fn(F)

    def _id_source(t):
        """crate-local function of a remote backend that yields stored / listed version ids"""
        n = t.get("callee") or ""
        if n in F.bodies and _in_remote(n) and not _remote_helper(F, t):
            out = F.bodies[n].get("sig_out") or ""
            return "uuid::Uuid" in out
        return False
    stop = lambda t: any(re.search(r"uuid::.*::new_v4$|^serde_json::(de::)?from_(reader|slice|str)", n) for n in call_names(t)) or _id_source(t) or _remote_helper(F, t)
    p = op_place(operand)
    if p is None:
        return {"?const"}
    from tc.flow import pproj
    sl = fl.slice_local(p["l"], proj=tuple(pproj(p)) + tuple(rest), stop=stop)
    roles = set()
    for r in sl.roots:
        if r[0] == "upvar" or r[0] == "param":
            nm = r[1] if r[0] == "upvar" else (b["locals"][r[1]].get("name") or "")
            fields = [str(e[2]) for e in r[2] if e[0] == "f"]
            full = " ".join([str(nm)] + fields)
            if "parent_version_id" in full:
                roles.add("parent")
            elif "version_id" in full or "version" in full or "child" in full:
                roles.add("own")
            else:
                roles.add("?" + full)
        elif r[0] == "call":
            t = c.term(r[1])
            if uhf in call_names(t):
                hs = const_strs(fl.slice_operand(t["args"][1]), F)
                if "X-Parent-Version-Id" in hs:
                    roles.add("parent")
                elif "X-Version-Id" in hs:
                    roles.add("own")
                else:
                    roles.add("?header %s" % sorted(hs))
            elif _remote_helper(F, t) and depth < 2:
                hb = _remote_helper(F, t)
                hfl = flow_of(hb)
                hc = cfg_of(hb)
                got = set()
                for prefix in _ret_prefixes(F, hb):
                    hs = hfl.slice_local(0, proj=prefix + tuple(r[3]), stop=stop)
                    for x in hs.roots:
                        if x[0] == "upvar" and hb.get("upvars"):
                            # coroutine of an async helper: upvar i == parameter i
                            if x[1] in hb["upvars"]:
                                ai = hb["upvars"].index(x[1])
                                if ai < len(t["args"]):
                                    got |= _id_role(F, b, fl, t["args"][ai], c, rest=x[2], depth=depth + 1)
                        elif x[0] == "param":
                            ai = x[1] - 1
                            if ai < len(t["args"]):
                                got |= _id_role(F, b, fl, t["args"][ai], c, rest=x[2], depth=depth + 1)
                        elif x[0] == "call":
                            got.add("own")
                roles |= got or {"?helper %s" % hb["owner_fn"]}
            else:
                roles.add("own")
    return roles


def _ret_prefixes(F, hb):
    out = hb.get("sig_out") or F.bodies.get(hb.get("owner_fn"), {}).get("sig_out") or ""
    if out.startswith("std::result::Result<") or "Output = std::result::Result<" in out:
        return ((("dc", "Ok"), ("f", 0, None)),)
    return ((),)


def _remote_helper(F, t):
    for n in [t.get("callee") or ""]:
        if n.startswith("std::") or n.startswith("core::"):
            continue
        hb = F.real_body(n) if n in F.bodies else None
        if hb is not None and _in_remote(hb["path"]) and not n.endswith("Cryptor::seal") and not n.endswith("Cryptor::unseal"):
            if (hb.get("sig_out") or F.bodies.get(hb.get("owner_fn"), {}).get("sig_out") or "").find("Sealed") >= 0 or "Version" in (F.bodies.get(hb.get("owner_fn"), {}).get("sig_out") or ""):
                return hb
    return None


def rule_X6(F, R):
    R.begin("X6", "binding table: HTTP versions are sealed and opened under the parent version id, HTTP snapshots and all object-store / git objects under their own version id; writer and reader of each backend agree")
    table = {}
    for im in remote_impls(F):
        backend = "http" if "server::sync" in im["self"] else ("cloud" if "cloud" in im["self"] else "git")
        for it in im["items"]:
            if it["name"] not in ("add_version", "get_child_version", "add_snapshot", "get_snapshot"):
                continue
            b0 = F.real_body(it["path"])
            cone = [q for q in F.reachable_from([b0["path"]], stop=lambda q: not _in_remote(q)) if _in_remote(q)]
            for q in cone:
                qb = F.bodies[q]
                c = cfg_of(qb)
                fl = flow_of(qb)
                for kind, adt in (("seal", "Unsealed"), ("unseal", "Sealed")):
                    for (i, t) in calls_matching(c, r"Cryptor::%s$" % kind):
                        a = t["args"][1]
                        roles = _id_role(F, qb, fl, a, c, rest=(("f", 0, "version_id"),))
                        table.setdefault((backend, it["name"]), set()).update(roles)
    want = {
        ("http", "add_version"): {"parent"}, ("http", "get_child_version"): {"parent"},
        ("http", "add_snapshot"): {"own"}, ("http", "get_snapshot"): {"own"},
        ("cloud", "add_version"): {"own"}, ("cloud", "get_child_version"): {"own"},
        ("cloud", "add_snapshot"): {"own"}, ("cloud", "get_snapshot"): {"own"},
        ("git", "add_version"): {"own"}, ("git", "get_child_version"): {"own"},
        ("git", "add_snapshot"): {"own"}, ("git", "get_snapshot"): {"own"},
    }
    for k, w in sorted(want.items()):
        got = table.get(k)
        if got is None or not got:
            R.violation("X6", "%s::%s" % k, "no-binding", "cannot find the version id that binds the sealed value in %s %s" % k, None)
        elif got != w:
            R.violation("X6", "%s::%s" % k, "binding", "%s %s binds its sealed value to the %s version id; documented: %s (writer and reader must agree)" % (k[0], k[1], sorted(got), sorted(w)), None)
        else:
            R.ok("X6", "%s %s bound to the %s version id" % (k[0], k[1], sorted(w)[0]))
    R.extra["binding_table"] = {"%s.%s" % k: sorted(v) for k, v in table.items()}


def rule_X7(F, R):
    R.begin("X7", "salt: HTTP = client id; object store and git = the stored random salt created with gen_salt")
    n = 0
    for (bp, bb) in F.callsites.get(ENC + "::Cryptor::new", []):
        b = F.bodies[bp]
        if b["blocks"][bb]["cleanup"] or not _in_remote(bp):
            continue
        n += 1
        t = b["blocks"][bb]["t"]
        fl = flow_of(b)
        sl = fl.slice_operand(t["args"][0])
        owner = F.owner(bp)
        if "server::sync" in owner:
            names = sl.upvars() | {b["locals"][p].get("name") for p in sl.params()}
            if "client_id" in names and not sl.root_calls():
                R.ok("X7", "HTTP: salt = client id", where(b, bb))
            else:
                R.violation("X7", owner, "http-salt", "the HTTP backend's salt is not the client id", where(b, bb))
        elif "cloud" in owner:
            if any((tt.get("callee") or "") in RL.fns_calling(F, r"Cryptor::gen_salt$", r"cloud::server") for tt in sl.calls.values()):
                R.ok("X7", "object store: salt = stored salt", where(b, bb))
            else:
                R.violation("X7", owner, "cloud-salt", "the object-store backend's salt is not the stored salt", where(b, bb))
        else:
            if any("salt" in str(r) for r in sl.roots):
                R.ok("X7", "git: salt = meta.salt", where(b, bb))
            else:
                R.violation("X7", owner, "git-salt", "the git backend's salt is not the stored meta.salt", where(b, bb))
    R.floor("X7", "Cryptor::new call sites in the remote backends", n, 3)
    # gen_salt: 16 random bytes
    b, paths = _paths(F, R, "X7", ENC + "::Cryptor::gen_salt")
    for p in paths:
        if p.end[0] == "return" and p.ret[0] == "A" and p.ret[2] == "Ok":
            fills = [e for e in p.events if e["callee"].endswith("SecureRandom::fill")]
            ok = len(fills) == 1 and _has(p.ret, lambda v: v[0] == "M" and v[1] == fills[0]["id"] and v[2][0] == "Rep" and v[2][2].startswith("16"))
            if ok:
                R.ok("X7", "gen_salt: 16 bytes from the system RNG", where(b))
            else:
                R.violation("X7", b["path"], "gen_salt", "gen_salt does not return 16 freshly generated random bytes", where(b))
    # the stored salt is created only through compare-and-swap with None (cloud)
    gsn = [x for x in RL.fns_calling(F, r"Cryptor::gen_salt$", r"cloud::server")]
    gs = F.real_body(gsn[0]) if len(gsn) == 1 else None
    if gs is not None:
        c = cfg_of(gs)
        cas = calls_matching(c, r"Service::compare_and_swap$")
        fl = flow_of(gs)
        if cas and all(fl.slice_operand(t["args"][3]).has_call(r"gen_salt$") for _i, t in cas):
            R.ok("X7", "object store: salt created by compare_and_swap(None, gen_salt())", where(gs, cas[0][0]))
        else:
            R.violation("X7", gs["owner_fn"], "salt-creation", "the object-store salt is not created via compare_and_swap with a gen_salt value", where(gs))
    # X7b: the salt handed to the key derivation is the one the store holds after the swap (read back),
    # never the locally generated candidate: when two handles race to create the salt, the loser's
    # candidate is not what was stored, and everything sealed with it is unreadable to everyone else
    if gs is not None:
        c = cfg_of(gs)
        fl = flow_of(gs)
        stopget = lambda t: any(x.endswith("Service::get") for x in call_names(t))
        oks = agg_sites(c, "result::Result", "Ok")
        n_get = 0
        for (i, j, st) in oks:
            sl = fl.slice_operand(st["r"]["ops"][0], stop=stopget)
            swapped = False
            if sl.has_call(r"gen_salt$"):
                # returning the candidate is right exactly when the swap reported that it was stored
                for (s, labs) in guards_of(c, i):
                    bo = bool_origin(fl, c.term(s)["o"])
                    if bo and any(x.endswith("Service::compare_and_swap") for x in call_names(bo[1])):
                        te = {lab for (_s, _j, lab) in switch_true_edges(c, s, bo[2])}
                        if set(labs) <= te:
                            swapped = True
            if swapped:
                n_get += 1
                R.ok("X7", "object store: the candidate salt is returned only when the swap stored it", where(gs, sp=st["sp"]))
            elif sl.has_call(r"gen_salt$"):
                R.violation("X7", gs["owner_fn"], "salt-not-read-back", "the salt returned is the locally generated candidate, not the value read back from the store: a handle that loses the creation race derives a key nobody else can use", where(gs, sp=st["sp"]))
            elif sl.has_call(r"Service::get$"):
                n_get += 1
                R.ok("X7", "object store: the salt returned is read from the store", where(gs, sp=st["sp"]))
        R.floor("X7", "successful returns of the stored salt", n_get, 1)


# (function, kind, ordinal) -> why the site cannot fire on any input
X8_ALLOW = {
    (ENC + "::Cryptor::unseal", "copy_from_slice", 1): "the source is Envelope.nonce, which from_bytes cuts as exactly [1..1+NONCE_LEN] (checked by X4 `slices`), the destination is [0u8; NONCE_LEN]",
    (ENC + "::Envelope::<'a>::from_bytes", "assert:Overflow", 1): "1 + NONCE_LEN on constants",
    (ENC + "::Envelope::<'a>::from_bytes", "assert:Overflow", 2): "1 + NONCE_LEN on constants",
    (ENC + "::Envelope::<'a>::from_bytes", "assert:Overflow", 3): "1 + NONCE_LEN on constants",
    (ENC + "::Envelope::<'a>::from_bytes", "assert:BoundsCheck { len: move _13, index: copy _12 }", 1): "buf[0] under the guard len > 1 + NONCE_LEN (checked by X4 `length-check`)",
    (ENC + "::Envelope::<'a>::from_bytes", "indexing", 1): "buf[1..1+NONCE_LEN] under the guard len > 1 + NONCE_LEN",
    (ENC + "::Envelope::<'a>::from_bytes", "indexing", 2): "buf[1+NONCE_LEN..] under the guard len > 1 + NONCE_LEN",
}


def _x8_guarded(F, b, kind, bb):
    """a bounds-kind panic site of the envelope parser that only runs after the `too small` rejection, or an overflow
    check on an addition of two constants"""
    if not (kind in ("indexing", "split_at") or kind.startswith("assert:BoundsCheck") or kind.startswith("assert:Overflow")):
        return False
    c = cfg_of(b)
    fl = flow_of(b)
    if kind.startswith("assert:Overflow"):
        for st in c.blocks[bb]["s"]:
            if st["k"] == "assign" and st["r"]["k"] in ("bin", "checkedbin") and "k" in st["r"].get("a", {}) and "k" in st["r"].get("b", {}):
                return True
    for (s_, labs) in guards_of(c, bb):
        t = c.term(s_)
        p_ = op_place(t["o"]) if t else None
        d = local_def(fl, p_["l"]) if p_ else None
        if d and d[0] == "rv" and d[1]["k"] == "bin" and d[1]["op"] in ("Le", "Lt"):
            a_sl = fl.slice_operand(d[1]["a"])
            if any(n.endswith("::len") for n in a_sl.call_names()) and "1" not in labs and "otherwise" not in [l for l in labs if False]:
                # only the `false` (not too small) edge reaches the site
                if all(str(l) in ("0", "false") for l in labs):
                    return True
    return False


def rule_X8(F, R):
    R.begin("X8", "bytes that come back from a remote are untrusted: in the cone of Cryptor::unseal (envelope parsing, AAD, opening) no panic construct is reachable except the listed sites whose bounds are established by the length guard or by constant sizes. Modified, truncated or foreign data must be rejected with an error, and a panic is not an error the caller can handle")
    import r_panic
    start = ENC + "::Cryptor::unseal"
    if start not in F.bodies:
        R.missing("X8", "Cryptor::unseal")
        return
    # only code that handles the untrusted bytes: unseal itself and, transitively, the crate functions
    # that receive a value derived from its `payload` argument
    cone = []
    work = [(start, None)]
    seen_fn = set()
    while work:
        fn, tainted = work.pop()
        if fn in seen_fn or fn not in F.bodies:
            continue
        seen_fn.add(fn)
        cone.append(fn)
        fb = F.real_body(fn)
        if fb is None:
            continue
        fl = flow_of(fb)
        for (i, t) in cfg_of(fb).calls():
            for callee in call_names(t):
                if callee in F.bodies and callee not in seen_fn:
                    for a in t["args"]:
                        if "c" in a or "m" in a:
                            sl = fl.slice_operand(a)
                            bytes_root = any(r[0] == "param" and fb["locals"][r[1]].get("name") == "payload" and any(len(e) > 2 and e[2] == "payload" for e in (r[2] or ()) if e[0] == "f") for r in sl.roots)
                            if (fn == start and bytes_root) or (fn != start and sl.params()):
                                work.append((callee, None))
                                break
    cone = sorted(set(cone))
    n = 0
    used = set()
    for q in cone:
        b = F.bodies[q]
        for (kind, k, bb, desc, sp) in r_panic.panic_sites_in(F, b):
            n += 1
            key = (q, kind, k)
            # bounds-check messages name MIR locals: match them by their shape
            key2 = (q, re.sub(r"_\d+", "_N", kind), k)
            allow = {(a, re.sub(r"_\d+", "_N", b_), c_): v for (a, b_, c_), v in X8_ALLOW.items()}
            if key2 not in allow and q == RL.envelope_fns(F)[0] and _x8_guarded(F, b, kind, bb):
                R.ok("X8", "%s #%d in the envelope parser is dominated by the length guard (the cut itself is decided by X4 `slices`)" % (kind, k), where(b, sp=sp))
                continue
            if key2 in allow:
                used.add(key2)
                R.ok("X8", "allow-listed: %s #%d in %s (%s)" % (kind, k, q.split("::")[-1], allow[key2]), where(b, sp=sp))
            else:
                R.violation("X8", q, "%s#%d" % (re.sub(r"_\d+", "_N", kind), k), "%s at %s is reachable while opening bytes received from a remote: data that is not a well-formed envelope must be answered with an error, not a panic" % (desc, loc(sp)), where(b, sp=sp))
    R.floor("X8", "panic sites examined in the cone of Cryptor::unseal", n, 3)
    R.info("X8", "functions in the cone: %s" % ", ".join(x.split("::")[-1] for x in cone))
