"""C14 (and C01/C03): W1-W5 — what is sent is the documented operation format only."""
import re

from tc.facts import call_names, loc
from tc.sym import SymExec, show, show_path
from tc.util import calls_matching, cfg_of, flow_of, where
import r_sync
import r_taskdb

SYNCOP = "server::op::SyncOp"
DOC = {
    "Create": [("uuid", "uuid::Uuid")],
    "Delete": [("uuid", "uuid::Uuid")],
    "Update": [("uuid", "uuid::Uuid"), ("property", "std::string::String"), ("value", "std::option::Option<std::string::String>"), ("timestamp", "chrono::DateTime<chrono::Utc>")],
}


def rule_W1(F, R):
    R.begin("W1", "type: SyncOp has exactly Create{uuid}, Delete{uuid}, Update{uuid, property, value, timestamp} with the documented types; no undo point, no old-value field")
    adt = F.adts.get(SYNCOP)
    if adt is None:
        R.missing("W1", "enum " + SYNCOP)
        return
    got = {v["name"]: [(f["name"], f["ty"]) for f in v["fields"]] for v in adt["variants"]}
    if got == DOC:
        R.ok("W1", "SyncOp = %s" % {k: [f for f, _t in v] for k, v in got.items()}, loc(adt["sp"]))
    else:
        extra = {k: v for k, v in got.items() if DOC.get(k) != v}
        R.violation("W1", SYNCOP, "shape", "SyncOp differs from the documented operation format: %s" % extra, loc(adt["sp"]))


def _ser_body(F, ty):
    for p, b in F.bodies.items():
        if p.endswith("Serialize for %s>::serialize" % ty):
            return b
    return None


def rule_W2(F, R):
    R.begin("W2", "wire names: the serializer of SyncOp emits variant names Create|Delete|Update and the documented field names in order, each from the field of the same name; the deserializer is keyed by the same names")
    b = _ser_body(F, SYNCOP)
    if b is None:
        R.missing("W2", "impl Serialize for SyncOp")
        return
    paths = [p for p in SymExec(b, cfg_of(b)).run() if p.end[0] == "return" and not any(o == "Err" for _a, o, _bb in p.atoms)]
    seen = {}
    for p in paths:
        var = None
        for (a, o, _bb) in p.atoms:
            if a == ("variant", ("P", "self")):
                var = o
        sv = [e for e in p.events if e["callee"].endswith("serialize_struct_variant")]
        sf = [e for e in p.events if e["callee"].endswith("serialize_field")]
        if var is None or len(sv) != 1:
            R.violation("W2", b["path"], "writer-shape:%s" % var, "the serializer of SyncOp::%s is not a struct variant" % var, where(b))
            continue
        vname = str(sv[0]["args"][3][1]).strip('"')
        fields = [(str(e["args"][1][1]).strip('"'), e["args"][2]) for e in sf]
        seen[var] = (vname, fields)
        want = DOC.get(var)
        okf = want is not None and [f for f, _v in fields] == [f for f, _t in want] and all(v == ("F", ("P", "self"), var, f) for f, v in fields)
        if vname != var or not okf:
            R.violation("W2", b["path"], "writer:%s" % var, "SyncOp::%s is written as \"%s\" with fields %s; documented: \"%s\" %s" % (var, vname, [(f, show(v)) for f, v in fields], var, [f for f, _t in (want or [])]), where(b))
        else:
            R.ok("W2", "writer %s{%s}" % (vname, ", ".join(f for f, _v in fields)), where(b))
    for k in DOC:
        if k not in seen:
            R.violation("W2", b["path"], "writer-missing:%s" % k, "the serializer has no arm for %s" % k, where(b))
    # reader tables
    readers = []
    for p, vb in F.bodies.items():
        if "Deserialize<'de> for %s>" % SYNCOP in p and p.endswith("::visit_str"):
            rows = {}
            for q in SymExec(vb, cfg_of(vb)).run():
                if q.end[0] != "return" or not (q.ret[0] == "A" and q.ret[2] == "Ok"):
                    continue
                trues = [a[2][1] for (a, o, _bb) in q.atoms if a[0] == "call" and a[1].endswith("PartialEq::eq") and o is True]
                fld = q.ret[3][0][1]
                if trues and fld[0] == "A":
                    rows[str(trues[0][1]).strip('"')] = fld[2]
            readers.append((p, rows))
    var_reader = [r for r in readers if set(r[1]) == set(DOC)]
    if len(var_reader) != 1 or var_reader[0][1] != {"Create": "__field0", "Delete": "__field1", "Update": "__field2"}:
        R.violation("W2", SYNCOP, "reader-variants", "the deserializer's variant table is %s; expected Create/Delete/Update in declaration order" % [r[1] for r in readers if "visit_enum" not in r[0]], None)
    else:
        R.ok("W2", "reader variants %s" % sorted(var_reader[0][1]))
    upd = [r for r in readers if set(r[1]) == {f for f, _t in DOC["Update"]}]
    if not upd or upd[0][1] != {"uuid": "__field0", "property": "__field1", "value": "__field2", "timestamp": "__field3"}:
        R.violation("W2", SYNCOP, "reader-fields", "the deserializer's field table for Update is %s; expected uuid, property, value, timestamp" % [r[1] for r in readers if "visit_enum" in r[0]], None)
    else:
        R.ok("W2", "reader Update fields %s (map visitor: order-insensitive)" % sorted(upd[0][1]))
    R.floor("W2", "deserializer name tables", len(readers), 2)


def rule_W3(F, R):
    R.begin("W3", "only that type leaves: the history segment given to add_version derives from serde_json serialisation of a struct whose only field is `operations: Vec<SyncOp>`")
    x = r_sync._ctx(F, R)
    if not x.ok:
        return
    c, fl = x.c, x.fl
    for (i, t) in x.add_version:
        sl = fl.slice_operand(t["args"][2], stop_locals={x.X})
        ser = [(bb, tt) for bb, tt in sl.calls.items() if any(re.match(r"^serde_json::(ser::)?(to_string|to_vec)$", n) for n in call_names(tt))]
        if len(ser) != 1:
            R.violation("W3", x.subj, "not-serde-json", "the history segment is not produced by exactly one serde_json::to_string/to_vec", where(x.b, i))
            continue
        subs = ser[0][1].get("substs", [])
        ty = subs[0] if subs else "?"
        adt = F.adts.get(ty)
        if adt is None or adt["kind"] != "Struct":
            R.violation("W3", x.subj, "serialised-type", "the serialised value is a %s, not the version wrapper struct" % ty, where(x.b, ser[0][0]))
            continue
        fields = [(f["name"], f["ty"]) for f in adt["variants"][0]["fields"]]
        if fields != [("operations", "std::vec::Vec<%s>" % SYNCOP)]:
            R.violation("W3", ty, "wrapper-shape", "the version wrapper %s has fields %s; documented: operations: [SyncOp]" % (ty, fields), loc(adt["sp"]))
            continue
        sb = _ser_body(F, ty)
        names = []
        if sb is not None:
            for q in SymExec(sb, cfg_of(sb)).run():
                if q.end[0] == "return" and not any(o == "Err" for _a, o, _bb in q.atoms):
                    names = [str(e["args"][1][1]).strip('"') for e in q.events if e["callee"].endswith("serialize_field")]
        if names != ["operations"]:
            R.violation("W3", ty, "wrapper-wire-name", "the version wrapper is written with field names %s; documented: operations" % names, None)
        else:
            R.ok("W3", "add_version(serde_json(%s{operations: Vec<SyncOp>}))" % ty.split("::")[-1], where(x.b, i))
        # W5: order
        bad = sorted({n for n in sl.call_names() if r_taskdb.REORDER.search(n) and not n.endswith("::truncate")})
        if bad:
            R.violation("W5", x.subj, "order-changed", "the operations pass through %s between the pending container and serialisation (order / selection changes)" % bad[0], where(x.b, i))
        else:
            R.ok("W5", "no reordering between the pending container and serialisation", where(x.b, i))
    # the pending container itself is filled from unsynced_operations through from_op only, in order
    for d in fl.defs.get(x.X, ()):
        if d[0] == "mutcall":
            continue
        s = fl.slice_def(d, stop=x.is_unsynced, stop_locals={x.X})
        if any(r[0] == "call" and x.is_unsynced(c.term(r[1])) for r in s.roots):
            conv = any(r[0] == "const" and r[2] and r[2].endswith("SyncOp::from_op") for r in s.roots) or s.has_call(r"SyncOp::from_op$")
            bad = sorted({n for n in s.call_names() if r_taskdb.REORDER.search(n) and not n.endswith("::filter_map")})
            if not conv:
                R.violation("W3", x.subj, "not-through-from_op", "pending operations are not converted with SyncOp::from_op", where(x.b, d[1]))
            elif bad:
                R.violation("W5", x.subj, "order-changed-on-load", "pending operations pass through %s when loaded" % bad[0], where(x.b, d[1]))
            else:
                R.ok("W3", "pending operations = unsynced_operations().filter_map(SyncOp::from_op)", where(x.b, d[1]))


def _is_none(F, v):
    """the literal None, or a named constant that evaluates to None"""
    if v == ("A", "std::option::Option", "None", ()):
        return True
    if v and v[0] == "K" and isinstance(v[1], str):
        c = F.consts.get(v[1])
        return bool(c and c.get("ty", "").startswith("std::option::Option<") and (c.get("val") or "").endswith("::None"))
    return False


def rule_W4(F, R):
    R.begin("W4", "conversion tables: from_op maps fields by name (value <- value, never old_value), UndoPoint -> None; into_op sets old_value = None / old_task = empty")
    b = F.bodies.get(SYNCOP + "::from_op")
    if b is None:
        R.missing("W4", "SyncOp::from_op")
    else:
        rows = {}
        for p in SymExec(b, cfg_of(b)).run():
            if p.end[0] != "return":
                continue
            kind = [o for (a, o, _bb) in p.atoms if a == ("variant", ("P", "op"))]
            if kind:
                rows[kind[0]] = p.ret
        op = ("P", "op")

        def some(v, fields):
            return ("A", "std::option::Option", "Some", ((0, ("A", SYNCOP, v, tuple((f, ("F", op, v, f)) for f in fields))),))
        want = {
            "Create": some("Create", ["uuid"]), "Delete": some("Delete", ["uuid"]),
            "Update": some("Update", ["uuid", "property", "value", "timestamp"]),
            "UndoPoint": ("A", "std::option::Option", "None", ()),
        }
        for k, w in want.items():
            if rows.get(k) == w:
                R.ok("W4", "from_op %s -> %s" % (k, show(w)[:100]), where(b))
            else:
                R.violation("W4", b["path"], "from_op:%s" % k, "from_op(%s) = %s; documented: %s" % (k, show(rows.get(k, ("?", "missing")))[:200], show(w)[:200]), where(b))
    b = F.bodies.get(SYNCOP + "::into_op")
    if b is None:
        R.missing("W4", "SyncOp::into_op")
        return
    for p in SymExec(b, cfg_of(b)).run():
        if p.end[0] != "return":
            continue
        kind = [o for (a, o, _bb) in p.atoms if a[0] == "variant"]
        if not kind:
            continue
        k = kind[0]
        r = p.ret
        sp = ("P", "self")
        ok = False
        if r[0] == "A" and r[1] == "operation::Operation" and r[2] == k:
            f = dict(r[3])
            if k == "Create":
                ok = f == {"uuid": ("F", sp, k, "uuid")}
            elif k == "Delete":
                ot = f.get("old_task", ("?",))
                ok = f.get("uuid") == ("F", sp, k, "uuid") and ot[0] == "C" and ot[2].endswith("::new") and not ot[3]
            elif k == "Update":
                ok = all(f.get(n) == ("F", sp, k, n) for n in ("uuid", "property", "value", "timestamp")) and _is_none(F, f.get("old_value"))
        if ok:
            R.ok("W4", "into_op %s -> %s" % (k, show(r)[:100]), where(b))
        else:
            R.violation("W4", b["path"], "into_op:%s" % k, "into_op(%s) = %s" % (k, show(r)[:240]), where(b))
