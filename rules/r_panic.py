"""C18: panic reachability from the read accessors."""
import re

from tc.facts import call_names, loc
from tc.util import cfg_of, where

STORAGE_BOUNDARY = re.compile(r"^storage::(StorageTxn|Storage)::")

PANIC_FNS = re.compile(
    r"^(core|std)::panicking::|^std::rt::(begin_panic|panic_fmt)|^core::option::(expect_failed|unwrap_failed)|^core::result::unwrap_failed"
)

# frozen list of panicking std / dependency APIs (callee path regex -> kind)
PANIC_APIS = [
    (r"^std::option::Option::<T>::(unwrap|expect)$", "Option::unwrap/expect"),
    (r"^std::result::Result::<T, E>::(unwrap|expect|unwrap_err|expect_err)$", "Result::unwrap/expect"),
    (r"^std::ops::Index(Mut)?::index(_mut)?$", "indexing"),
    (r"::copy_from_slice$|::clone_from_slice$", "copy_from_slice"),
    (r"::split_at(_mut)?$", "split_at"),
    (r"^std::vec::Vec::<T, A>::(remove|swap_remove|insert|split_off|drain|truncate_front)$", "Vec index API"),
    (r"^std::string::String::(remove|insert|insert_str|split_off|drain|replace_range)$", "String index API"),
    (r"^std::str::<impl str>::(split_at|split_at_mut)$", "str::split_at"),
    (r"^std::cell::RefCell::<T>::(borrow|borrow_mut)$", "RefCell borrow"),
    (r"^std::ops::(Add|Sub|Mul|Div|Rem|Neg|AddAssign|SubAssign)::", "overloaded arithmetic"),
    (r"^chrono::.*TimeDelta.*::(days|hours|minutes|seconds|weeks|milliseconds)$", "chrono::Duration constructor"),
    (r"^chrono::.*::(timestamp|timestamp_millis|ymd|and_hms|from_utc|with_ymd_and_hms)$", "chrono panicking constructor"),
    (r"^chrono::DateTime::<Tz>::to_rfc2822$|^chrono::.*::to_rfc2822$", "chrono to_rfc2822 (panics for years outside 0..=9999)"),
    (r"^std::iter::Iterator::step_by$", "step_by"),
    (r"^std::slice::<impl \[T\]>::(chunks|windows|chunks_exact|rchunks|swap|rotate_left|rotate_right|copy_within)$", "slice API"),
    (r"^std::char::from_digit$|^core::char::methods::<impl char>::(from_digit|to_digit)$", "char digit radix"),
    (r"^std::time::(Instant|SystemTime)::(duration_since|elapsed)$", "time arithmetic"),
    (r"^std::thread::", "thread API"),
    (r"^std::process::(exit|abort)$", "process exit"),
    (r"^std::sync::mpsc::.*::(recv|send)$", None),  # returns Result: not a panic
]
_PANIC_APIS = [(re.compile(p), k) for p, k in PANIC_APIS if k]

# arithmetic trait calls on plain integers/floats are Assert terminators instead; overloaded
# operator calls matter only for these operand types
ARITH_PANIC_TYPES = re.compile(r"chrono::|std::time::|TimeDelta|Duration|DateTime")

READ_TYPES = [
    r"^task::task::Task$",
    r"^task::data::TaskData$",
    r"^workingset::WorkingSet$",
    r"^depmap::DependencyMap$",
    r"^task::tag::Tag$",
    r"^task::tag::TagInner$",
    r"^task::tag::SyntheticTag$",
    r"^task::status::Status$",
    r"^task::annotation::Annotation$",
]
_READ_TYPES = [re.compile(x) for x in READ_TYPES]

# (function path, kind, ordinal) -> reason.  Confirmed by reading the code; see DESIGN.md C18.
ALLOW = {
    ("replica::Replica::<S>::dependency_map::{closure#0}", "Option::unwrap/expect", 1):
        "self.depmap is assigned Some(..) on every path just above (replica.rs, 'at this point self.depmap is guaranteed to be Some')",
    ("taskdb::undo::get_undo_operations::{closure#0}", "indexing", 1):
        "range start is an index produced by enumerate() over the same vector (<= len)",
    ("workingset::WorkingSet::new", "indexing", 1):
        "by_index[0] is evaluated only when !by_index.is_empty() (short-circuit ||)",
    ("workingset::WorkingSet::new", "panic:assert", 1):
        "storage contract: get_working_set() always returns slot 0 == None (StorageTxn docs; both storages build the vector that way); not task-map content",
}


def writer_methods(F):
    """StorageTxn method names that modify storage (role-based, see roles.py)"""
    import roles
    return roles.writer_methods(F)


def _writer_methods_old(F):
    out = set()
    for im in F.impls:
        if not im.get("trait", "").endswith("WrappedStorageTxn"):
            continue
        if "sqlite" not in im["self"]:
            continue
        for it in im["items"]:
            b = F.real_body(it["path"])
            if b is None:
                continue
            for bl in b["blocks"]:
                t = bl["t"]
                if t and t["k"] == "call" and any(n.endswith("check_write_access") for n in call_names(t)):
                    out.add(it["name"])
    return out


def _mut_self(b):
    ins = b.get("sig_in") or []
    return bool(ins) and ins[0].startswith("&mut ")


def _self_ref(b):
    ins = b.get("sig_in") or []
    return bool(ins) and ins[0].startswith("&") and not ins[0].startswith("&mut ")


def entry_points(F, R):
    entries = {}
    writers = writer_methods(F)
    R.floor("C18", "StorageTxn writer methods derived from the SQLite transaction", len(writers), 10)
    wpaths = {"storage::StorageTxn::" + w for w in writers}
    for p, b in F.bodies.items():
        if b["kind"] != "AssocFn" or not b.get("reachable"):
            continue
        im = b.get("impl") or {}
        st = im.get("self", "")
        if any(rx.search(st) for rx in _READ_TYPES):
            ins = b.get("sig_in") or []
            if any("operation::Operations" in x or "Vec<operation::Operation>" in x for x in ins):
                continue
            if _mut_self(b):
                continue
            if im.get("trait") and im["trait"].startswith("std::fmt::"):
                pass
            entries[p] = "read accessor of %s" % st
        elif st.startswith("replica::Replica<"):
            if im.get("trait"):
                continue
            ins = b.get("sig_in") or []
            if any("operation::Operations" in x or "Vec<operation::Operation>" in x for x in ins):
                continue
            # read method: no StorageTxn writer reachable
            seen = F.reachable_from([p])
            touches_writer = False
            for q in seen:
                for (_i, t) in F.calls_in.get(q, ()):
                    if any(n in wpaths for n in call_names(t)):
                        touches_writer = True
                        break
                if touches_writer:
                    break
            if not touches_writer:
                entries[p] = "read method of Replica"
    return entries


def panic_sites_in(F, body):
    """[(kind, ordinal-key, bb, description)]"""
    c = cfg_of(body)
    out = []
    counts = {}

    def add(kind, bb, desc, sp):
        n = counts.get(kind, 0) + 1
        counts[kind] = n
        out.append((kind, n, bb, desc, sp))

    for i in sorted(c.reach):
        t = c.term(i)
        if not t:
            continue
        if t["k"] == "assert":
            add("assert:" + t["msg"].split("(")[0], i, "compiler-inserted check %s" % t["msg"], t["sp"])
        elif t["k"] == "call":
            names = call_names(t)
            if any(PANIC_FNS.search(n) for n in names):
                mac = t["sp"].get("xo", t["sp"].get("x", ""))
                add("panic:" + (mac.split(":")[-1] if mac else "call"), i, "call to %s" % names[0], t["sp"])
                continue
            for rx, kind in _PANIC_APIS:
                if any(rx.search(n) for n in names):
                    if kind in ("indexing", "Vec index API", "String index API"):
                        subs = t.get("substs", [])
                        if any(s == "std::ops::RangeFull" for s in subs):
                            break  # `[..]` / `drain(..)` cannot be out of range
                    if kind == "overloaded arithmetic":
                        subs = " ".join(t.get("substs", []))
                        if not ARITH_PANIC_TYPES.search(subs):
                            break
                    add(kind, i, "call to %s" % names[0], t["sp"])
                    break
    return out


def _structurally_safe(F, b, kind, bb):
    """unwrap()/expect() on the first `next()` of a `splitn`/`split` iterator cannot fail"""
    if kind != "Option::unwrap/expect":
        return False
    from tc.util import flow_of
    t = b["blocks"][bb]["t"]
    fl = flow_of(b)
    sl = fl.slice_operand(t["args"][0], stop=lambda tt: any(n.endswith("Iterator::next") for n in call_names(tt)))
    nexts = [r for r in sl.roots if r[0] == "call" and r[2].endswith("Iterator::next")]
    if len(nexts) != 1 or any(r[0] in ("param", "upvar") for r in sl.roots):
        return False
    nt = b["blocks"][nexts[0][1]]["t"]
    s2 = fl.slice_operand(nt["args"][0])
    if not any(re.search(r"<impl str>::(splitn|split|rsplitn|split_terminator|lines)$", n) for n in s2.call_names()):
        return False
    # it must be the *first* next() on that iterator: no other next() call on it dominates this one
    from tc.util import cfg_of
    c = cfg_of(b)
    others = [i for i, tt in c.calls() if any(n.endswith("Iterator::next") for n in call_names(tt)) and i != nexts[0][1] and c.dominates(i, nexts[0][1])]
    return not others


def rule_panic(F, R, allow=None):
    allow = ALLOW if allow is None else allow
    R.begin("C18", "no panic construct (panic!/unreachable!/assert!, unwrap/expect, panicking index or arithmetic API, compiler-inserted Assert) is reachable from a read accessor, except the allow-listed sites")
    entries = entry_points(F, R)
    R.floor("C18", "read-accessor entry points", len(entries), 40)
    cg = F.callgraph()

    def stop(p):
        return False

    # traversal that does not cross the storage trait boundary
    seen = {}
    work = []
    for e in sorted(entries):
        seen[e] = None
        work.append(e)
    while work:
        p = work.pop()
        b = F.bodies[p]
        nxt = set(F.closures_in.get(p, ()))
        # function items handed over as values (`.filter_map(Tag::from_stored)`) are called by the receiver
        for fnname in F.fnitems_in.get(p, ()):
            if fnname in F.bodies:
                nxt.add(fnname)
            else:
                nxt |= set(F._norm_index().get(re.sub(r"::<[^>]*>", "", fnname), ()))
        for (_i, t) in F.calls_in.get(p, ()):
            if t.get("callee") and STORAGE_BOUNDARY.search(t["callee"]):
                continue
            nxt |= F.call_targets(t)
        for q in sorted(nxt):
            if q in F.bodies and q not in seen:
                seen[q] = p
                work.append(q)
    R.count("functions_in_read_cone", len(seen))
    nsites = 0
    used_allow = set()
    for p in sorted(seen):
        b = F.bodies[p]
        for (kind, n, bb, desc, sp) in panic_sites_in(F, b):
            nsites += 1
            key = (p, kind, n)
            chain = F.chain(seen, p)
            if key not in allow and _structurally_safe(F, b, kind, bb):
                R.ok("C18", "structurally safe: %s #%d in %s (first item of str::splitn always exists)" % (kind, n, p), where(b, sp=sp))
                continue
            if key in allow:
                used_allow.add(key)
                R.ok("C18", "allow-listed: %s #%d in %s (%s)" % (kind, n, p, allow[key]), where(b, sp=sp))
            else:
                R.violation("C18", p, "%s#%d" % (kind, n),
                            "%s at %s is reachable from read accessor %s via %s" % (desc, loc(sp), chain[0], " -> ".join(chain)),
                            where(b, sp=sp), details={"chain": chain, "entry_kind": entries.get(chain[0])})
    R.count("panic_sites_in_cone", nsites)
    R.extra["entry_points"] = len(entries)
    R.extra["cone_functions"] = len(seen)
    R.extra["allow_table_used"] = len(used_allow)
    for e in sorted(entries)[:0]:
        pass
    # every entry point is an obligation
    bad_fns = {v["subject"] for v in R.violations if v["rule"] == "C18"}
    for e in sorted(entries):
        R.ok("C18", "entry %s (%s)" % (e, entries[e]), where(F.bodies[e]))
