"""TR: the operational-transform decision table (C01 TP1, C03 WIN, C04 CANCEL, C20).

The table is extracted statically from the MIR of the function with signature
(SyncOp, SyncOp) -> (Option<SyncOp>, Option<SyncOp>) and then evaluated over the finite
abstract input space (kinds x uuid{same,diff} x property{same,diff} x value{None,a,b}^2 x
timestamp{<,=,>}); the oracle is the documented application semantics (docs/sync-model.md,
docs/storage.md) implemented below as `apply`.
"""
import itertools

from tc.sym import SymExec, TooManyPaths, show, show_atom, show_path
from tc.util import cfg_of, where

SYNCOP = "server::op::SyncOp"
KINDS = ("Create", "Update", "Delete")


def find_transform(F):
    out = []
    for p, b in F.bodies.items():
        if b.get("sig_in") == [SYNCOP, SYNCOP] and b.get("sig_out", "").replace(" ", "") == (
            "(std::option::Option<%s>,std::option::Option<%s>)" % (SYNCOP, SYNCOP)
        ):
            out.append(b)
    return out


# ---- abstract inputs -------------------------------------------------------------------

def abstract_inputs():
    vals = (None, "a", "b")
    for k1 in KINDS:
        for k2 in KINDS:
            for same_uuid in (True, False):
                if k1 == "Update" and k2 == "Update":
                    for same_prop in (True, False):
                        for v1 in vals:
                            for v2 in vals:
                                for ts in ("<", "=", ">"):
                                    yield mk(k1, k2, same_uuid, same_prop, v1, v2, ts)
                elif k1 == "Update" or k2 == "Update":
                    for v in vals:
                        yield mk(k1, k2, same_uuid, True, v, v, "=")
                else:
                    yield mk(k1, k2, same_uuid, True, None, None, "=")


def mk(k1, k2, same_uuid, same_prop, v1, v2, ts):
    t1, t2 = {"<": (1, 2), "=": (1, 1), ">": (2, 1)}[ts]
    o1 = {"kind": k1, "uuid": "u1"}
    o2 = {"kind": k2, "uuid": "u1" if same_uuid else "u2"}
    if k1 == "Update":
        o1.update(property="p", value=v1, timestamp=t1)
    if k2 == "Update":
        o2.update(property="p" if same_prop else "q", value=v2, timestamp=t2)
    return o1, o2


def fmt_op(o):
    if o is None:
        return "-"
    if o["kind"] == "Update":
        return "Update(%s.%s=%s@%s)" % (o["uuid"], o["property"], o["value"], o["timestamp"])
    return "%s(%s)" % (o["kind"], o["uuid"])


# ---- evaluating extracted rows on an abstract input ---------------------------------------

class Unknown(Exception):
    pass


def ev(v, env):
    k = v[0]
    if k == "P":
        if v[1] in env:
            return env[v[1]]
        raise Unknown("parameter %s" % v[1])
    if k == "F":
        base = ev(v[1], env)
        if not isinstance(base, dict):
            raise Unknown("projection of non-operation %s" % show(v))
        if v[2] is not None and base["kind"] != v[2]:
            raise Unknown("projection %s of a %s" % (show(v), base["kind"]))
        if v[3] not in base:
            raise Unknown("field %s" % show(v))
        return base[v[3]]
    if k == "A":
        if v[1] == SYNCOP:
            o = {"kind": v[2]}
            for f, x in v[3]:
                o[f] = ev(x, env)
            return o
        if v[1].endswith("option::Option"):
            if v[2] == "None":
                return None
            return ev(v[3][0][1], env)
        raise Unknown("aggregate %s" % show(v))
    if k == "T":
        return tuple(ev(x, env) for x in v[1])
    if k == "C":
        raise Unknown("%s is compared after being passed through %s (a derived value, not the operation's own field)" % (show(v[3][0]) if v[3] else "?", v[2]))
    raise Unknown("value %s" % show(v))


def eval_atom(atom, env):
    if atom[0] == "variant":
        o = ev(atom[1], env)
        if isinstance(o, dict):
            return o["kind"]
        raise Unknown("variant of %s" % show(atom[1]))
    if atom[0] == "call":
        callee = atom[1]
        a = ev(atom[2][0], env)
        b = ev(atom[2][1], env)
        if callee.endswith("PartialEq::eq"):
            return a == b
        if callee.endswith("PartialEq::ne"):
            return a != b
        for suffix, f in (("::lt", lambda x, y: x < y), ("::le", lambda x, y: x <= y), ("::gt", lambda x, y: x > y), ("::ge", lambda x, y: x >= y)):
            if callee.endswith("PartialOrd" + suffix):
                if a is None or b is None or isinstance(a, str) != isinstance(b, str):
                    raise Unknown("ordering of %s" % show_atom(atom))
                return f(a, b)
        raise Unknown("predicate %s" % callee)
    if atom[0] == "bin":
        a = ev(atom[2], env)
        b = ev(atom[3], env)
        op = atom[1]
        return {"Eq": a == b, "Ne": a != b, "Lt": a < b, "Le": a <= b, "Gt": a > b, "Ge": a >= b}[op]
    raise Unknown("atom %s" % show_atom(atom))


def table_lookup(paths, o1, o2):
    env = {"operation1": o1, "operation2": o2}
    hits = []
    for p in paths:
        ok = True
        for atom, outcome, _bb in p.atoms:
            val = eval_atom(atom, env)
            if isinstance(outcome, tuple) and outcome and outcome[0] in ("oneof",):
                if val not in outcome[1]:
                    ok = False
                    break
            elif isinstance(outcome, tuple) and outcome and outcome[0] == "not":
                if val in outcome[1]:
                    ok = False
                    break
            elif val != outcome:
                ok = False
                break
        if ok:
            hits.append(p)
    return hits, env


# ---- oracle: documented application semantics ---------------------------------------------

def apply(state, op):
    """state: dict uuid -> None (absent) | dict(props); returns new state"""
    if op is None:
        return state
    s = {k: (dict(v) if v is not None else None) for k, v in state.items()}
    u = op["uuid"]
    cur = s.get(u)
    if op["kind"] == "Create":
        if cur is None:
            s[u] = {}
    elif op["kind"] == "Delete":
        if cur is not None:
            s[u] = None
    else:
        if cur is not None:
            if op["value"] is None:
                cur.pop(op["property"], None)
            else:
                cur[op["property"]] = op["value"]
    return s


def valid(state, op):
    cur = state.get(op["uuid"])
    if op["kind"] == "Create":
        return cur is None
    return cur is not None


def states():
    taskvals = [None, {}, {"p": "c"}, {"p": "c", "q": "c"}]
    for a in taskvals:
        for b in taskvals:
            yield {"u1": a, "u2": b}


def same_op(a, b):
    return a == b


# ---- the rule ------------------------------------------------------------------------------

_cache = {}
from tc.util import register_cache as _reg
_reg(_cache)


def extract_table(F, R):
    key = id(F)
    if key in _cache:
        return _cache[key]
    fns = find_transform(F)
    if len(fns) != 1:
        R.missing("TR", "the function (SyncOp, SyncOp) -> (Option<SyncOp>, Option<SyncOp>)", "found %d" % len(fns))
        _cache[key] = None
        return None
    b = fns[0]
    c = cfg_of(b)
    if c.back_edges():
        R.violation("TR", b["path"], "loop-in-transform", "the transform contains a loop; the decision-table extractor refuses it (fail closed)", where(b))
        _cache[key] = None
        return None
    try:
        paths = SymExec(b, c).run()
    except TooManyPaths as e:
        R.violation("TR", b["path"], "too-many-paths", str(e), where(b))
        _cache[key] = None
        return None
    paths = [p for p in paths if p.end[0] == "return"]
    # evaluate over all abstract inputs
    rows = []
    problems = []
    for o1, o2 in abstract_inputs():
        try:
            hits, env = table_lookup(paths, o1, o2)
        except Unknown as e:
            problems.append("atom outside the vocabulary: %s (input %s, %s)" % (e, fmt_op(o1), fmt_op(o2)))
            break
        if len(hits) != 1:
            problems.append("%d rows match input (%s, %s)" % (len(hits), fmt_op(o1), fmt_op(o2)))
            continue
        try:
            r1, r2 = ev(hits[0].ret, env)
        except Unknown as e:
            problems.append("result outside the vocabulary: %s on input (%s, %s)" % (e, fmt_op(o1), fmt_op(o2)))
            continue
        rows.append((o1, o2, r1, r2, hits[0]))
    for pr in problems[:5]:
        R.violation("TR", b["path"], "table-extraction:" + pr[:60], "cannot extract the transform's decision table: " + pr, where(b))
    res = {"body": b, "paths": paths, "rows": rows, "ok": not problems}
    _cache[key] = res
    return res


def rule_TP1(F, R):
    """diamond property for every pair valid on a common state"""
    R.begin("TR/TP1", "for every abstract pair of operations and every state on which both are valid, apply(apply(S,op1),op2') == apply(apply(S,op2),op1') under the documented application semantics")
    t = extract_table(F, R)
    if not t or not t["ok"]:
        return
    b = t["body"]
    n = 0
    informational = 0
    for (o1, o2, r1, r2, path) in t["rows"]:
        judged = False
        for S in states():
            if not (valid(S, o1) and valid(S, o2)):
                continue
            judged = True
            n += 1
            left = apply(apply(S, o1), r2)
            right = apply(apply(S, o2), r1)
            if left != right:
                R.violation("TR/TP1", b["path"], "diamond:%s/%s%s" % (o1["kind"], o2["kind"], _case(o1, o2)),
                            "transform(%s, %s) = (%s, %s): from state %s the two replicas end in %s vs %s (diverge)"
                            % (fmt_op(o1), fmt_op(o2), fmt_op(r1), fmt_op(r2), S, left, right), where(b),
                            details={"row": show_path(path)})
                break
        if judged:
            R.ok("TR/TP1", "(%s, %s) -> (%s, %s)" % (fmt_op(o1), fmt_op(o2), fmt_op(r1), fmt_op(r2)))
        else:
            informational += 1
    R.count("tp1_state_cases", n)
    R.count("tp1_rows_never_jointly_valid", informational)
    R.floor("TR/TP1", "kind pairs covered by the extracted table", len({(r[0]["kind"], r[1]["kind"]) for r in t["rows"]}), 9)
    R.extra["exhaustive"] = True
    R.extra["abstract_inputs"] = len(t["rows"])
    R.extra["table_rows"] = [show_path(p) for p in t["paths"]]


def _case(o1, o2):
    s = ""
    if o1["uuid"] == o2["uuid"]:
        s += ":same-task"
    if o1["kind"] == "Update" and o2["kind"] == "Update":
        s += ":%s-prop:ts%s" % ("same" if o1["property"] == o2["property"] else "diff",
                               "<" if o1["timestamp"] < o2["timestamp"] else ("=" if o1["timestamp"] == o2["timestamp"] else ">"))
        s += ":%s" % ("eqval" if o1["value"] == o2["value"] else "neqval")
    return s


def final_states(o1, o2, r1, r2):
    """final states via both sides for all jointly valid start states (they agree under TP1)"""
    out = []
    for S in states():
        if valid(S, o1) and valid(S, o2):
            out.append((S, apply(apply(S, o1), r2), apply(apply(S, o2), r1)))
    return out


def rule_WIN(F, R):
    R.begin("TR/WIN", "the documented conflict winners: different tasks/properties both kept; create/create exists; delete/delete gone; delete beats update; later timestamp wins, tie: exactly one value, same on both replicas; survivors are field-for-field their operand; argument-role symmetry for strict orders")
    t = extract_table(F, R)
    if not t or not t["ok"]:
        return
    b = t["body"]
    rows = t["rows"]
    index = {}
    for (o1, o2, r1, r2, path) in rows:
        index[(_key(o1), _key(o2))] = (r1, r2)
    for (o1, o2, r1, r2, path) in rows:
        k1, k2 = o1["kind"], o2["kind"]
        same = o1["uuid"] == o2["uuid"]
        # survivors must be their operand
        for r, o, name in ((r1, o1, "first"), (r2, o2, "second")):
            if r is not None and r != o:
                R.violation("TR/WIN", b["path"], "survivor-altered:%s/%s%s" % (k1, k2, _case(o1, o2)),
                            "the %s operation survives as %s instead of the operand %s (a rebuilt operation resolves later conflicts differently)" % (name, fmt_op(r), fmt_op(o)), where(b))
        fs = final_states(o1, o2, r1, r2)
        for (S, left, right) in fs:
            if left != right:
                continue  # TP1's business
            want = expected_final(S, o1, o2)
            if want is None:
                continue
            if isinstance(want, list):
                if left not in want:
                    R.violation("TR/WIN", b["path"], "winner:%s/%s%s" % (k1, k2, _case(o1, o2)),
                                "after (%s || %s) from %s the state is %s; documented outcomes: %s" % (fmt_op(o1), fmt_op(o2), S, left, want), where(b))
                    break
            elif left != want:
                R.violation("TR/WIN", b["path"], "winner:%s/%s%s" % (k1, k2, _case(o1, o2)),
                            "after (%s || %s) from %s the state is %s; the documented winner gives %s" % (fmt_op(o1), fmt_op(o2), S, left, want), where(b))
                break
        else:
            if fs:
                R.ok("TR/WIN", "(%s || %s) -> documented final state" % (fmt_op(o1), fmt_op(o2)))
        # symmetry for strict orders / non-update pairs
        sw = index.get((_key(o2), _key(o1)))
        if sw is not None and fs:
            strict = not (k1 == "Update" and k2 == "Update" and o1["timestamp"] == o2["timestamp"])
            if strict:
                for (S, left, right) in fs:
                    l2 = apply(apply(S, o2), sw[1])
                    if left == right and l2 != left:
                        R.violation("TR/WIN", b["path"], "order-dependent:%s/%s%s" % (k1, k2, _case(o1, o2)),
                                    "the outcome of (%s || %s) depends on which replica synchronised first: %s vs %s" % (fmt_op(o1), fmt_op(o2), left, l2), where(b))
                        break
            else:
                R.info("TR/WIN", "tie (%s || %s): survivor is %s; swapping the arguments gives %s" % (fmt_op(o1), fmt_op(o2), fmt_op(r1) if r1 else fmt_op(r2), fmt_op(sw[0]) if sw[0] else fmt_op(sw[1])))
    R.extra["exhaustive"] = True


def _key(o):
    return tuple(sorted(o.items(), key=lambda kv: kv[0]))


def expected_final(S, o1, o2):
    """documented final state, or None when the documentation does not fix it, or a list of
    admissible states (ties)"""
    k1, k2 = o1["kind"], o2["kind"]
    if o1["uuid"] != o2["uuid"]:
        return apply(apply(S, o1), o2)  # independent: both effects
    if k1 == "Update" and k2 == "Update":
        if o1["property"] != o2["property"]:
            return apply(apply(S, o1), o2)
        if o1["timestamp"] < o2["timestamp"]:
            return apply(apply(S, o1), o2)  # op2's value wins
        if o1["timestamp"] > o2["timestamp"]:
            return apply(apply(S, o2), o1)
        return [apply(apply(S, o1), o2), apply(apply(S, o2), o1)]
    if k1 == "Create" and k2 == "Create":
        return apply(S, o1)
    if k1 == "Delete" and k2 == "Delete":
        return apply(S, o1)
    if {k1, k2} == {"Update", "Delete"}:
        d = o1 if k1 == "Delete" else o2
        return apply(S, d)
    return None


def rule_CANCEL(F, R):
    R.begin("TR/CANCEL", "two identical operations transform to (None, None): a replica receiving its own already-accepted version cancels it against its pending operations")
    t = extract_table(F, R)
    if not t or not t["ok"]:
        return
    b = t["body"]
    n = 0
    for (o1, o2, r1, r2, path) in t["rows"]:
        if o1 == o2:
            n += 1
            if r1 is not None or r2 is not None:
                R.violation("TR/CANCEL", b["path"], "identical-not-cancelled:%s" % o1["kind"],
                            "transform(%s, %s) = (%s, %s): an operation re-received from the server after a lost reply would take effect twice or be re-sent" % (fmt_op(o1), fmt_op(o2), fmt_op(r1), fmt_op(r2)), where(b))
            else:
                R.ok("TR/CANCEL", "identical %s cancels" % fmt_op(o1))
    R.floor("TR/CANCEL", "identical-operation rows", n, 5)
    R.extra["exhaustive"] = True


def rule_DELETE_WINS(F, R):
    R.begin("TR/DEL", "delete beats a concurrent update of the same task in both argument orders (an expired task is not resurrected by a concurrent edit)")
    t = extract_table(F, R)
    if not t or not t["ok"]:
        return
    b = t["body"]
    n = 0
    for (o1, o2, r1, r2, path) in t["rows"]:
        if o1["uuid"] == o2["uuid"] and {o1["kind"], o2["kind"]} == {"Update", "Delete"}:
            n += 1
            for (S, left, right) in final_states(o1, o2, r1, r2):
                if left.get("u1") is not None or right.get("u1") is not None:
                    R.violation("TR/DEL", b["path"], "update-survives-delete:%s/%s" % (o1["kind"], o2["kind"]),
                                "after (%s || %s) the task still exists on a replica (%s / %s)" % (fmt_op(o1), fmt_op(o2), left, right), where(b))
                    break
            else:
                R.ok("TR/DEL", "(%s || %s): task gone on both replicas" % (fmt_op(o1), fmt_op(o2)))
    R.floor("TR/DEL", "update/delete rows", n, 6)
