"""Sensitivity corpus (thorough tier).

For each seeded variant under /verif/mutants/<ID>/*.patch (a still-compiling change that
breaks one decided clause) the repository is copied to a scratch directory outside /repo
and /verif, the patch applied, facts re-extracted *statically* with the shared target
directory, and the property's rules must report the expected rule.  The scratch copy is
removed immediately.  A patch that no longer applies is reported as skipped.  This
validates the checker; the verdict on /repo remains the static one.
"""
import os
import random
import re
import shutil
import subprocess
import tempfile

from tc import extract
from tc.facts import Facts
from tc.report import Report, VERIF

MUTANTS = os.path.join(VERIF, "mutants")
SCRATCH_ROOT = os.environ.get("TCVERIF_SCRATCH", "/var/tmp")


def copy_repo(repo, dst):
    subprocess.check_call(["rsync", "-a", "--exclude", "/target", "--exclude", "/.git", repo.rstrip("/") + "/", dst + "/"])


def parse_silent(path):
    out = []
    with open(path) as f:
        for line in f:
            m = re.match(r"^#\s*expect-silent:\s*(.+)$", line)
            if m:
                out += [x.strip() for x in m.group(1).split(",") if x.strip()]
            if line.startswith("--- ") or line.startswith("diff "):
                break
    return out


def parse_header(path):
    exp = []
    with open(path) as f:
        for line in f:
            m = re.match(r"^#\s*expect:\s*(.+)$", line)
            if m:
                exp += [x.strip() for x in m.group(1).split(",") if x.strip()]
            if line.startswith("--- ") or line.startswith("diff "):
                break
    return exp


def run_rules_on(repo, prop):
    import props

    facts_path, h, info = extract.ensure_facts(repo)
    from tc.util import reset_caches
    reset_caches()
    F = Facts(facts_path)
    R2 = Report(prop, "quick", 0)
    spec = props.PROPS[prop]
    for rule in spec["rules"]:
        rule(F, R2)
    return R2


def apply_patch(scratch, patch):
    r = subprocess.run(["patch", "-p1", "--no-backup-if-mismatch", "-s", "-f", "-i", patch], cwd=scratch,
                       stdout=subprocess.PIPE, stderr=subprocess.STDOUT, text=True)
    return r.returncode == 0, r.stdout


def check_patch(prop, patch, repo="/repo"):
    """returns (status, detail, violations) status in detected|missed|skipped|nocompile"""
    exp = parse_header(patch)
    scratch = tempfile.mkdtemp(prefix="tcverif-mut-", dir=SCRATCH_ROOT)
    try:
        copy_repo(repo, scratch)
        ok, out = apply_patch(scratch, patch)
        if not ok:
            return "skipped", "patch does not apply to the current tree: " + out.strip()[:200], []
        try:
            R2 = run_rules_on(scratch, prop)
        except extract.ExtractError as e:
            return "nocompile", str(e)[-600:], []
        rules_fired = sorted({v["rule"] for v in R2.violations})
        keys = [v["key"] for v in R2.violations]
        from tc.report import load_known
        known = {e["key"] for e in load_known() if e.get("status") == "known" and e.get("property") == prop}
        newkeys = [k for k in keys if k not in known]
        newrules = sorted({v["rule"] for v in R2.violations if v["key"] not in known})
        silent = parse_silent(patch)
        if silent:
            bad = [k for k in keys if any(k.startswith(s_ + "|") for s_ in silent)]
            if bad:
                return "missed", "control variant (the rule must stay silent on it) but fired %s" % bad, R2.violations
            return "detected", "control: %s silent as required; other keys %s" % (silent, newkeys), R2.violations
        if exp:
            hit = [e for e in exp if any(e == r or k.startswith(e + "|") or e in k for r in newrules for k in newkeys)]
            if hit:
                return "detected", "expected %s; fired %s" % (exp, newkeys), R2.violations
            return "missed", "expected %s; fired %s" % (exp, newkeys), R2.violations
        if newkeys:
            return "detected", "fired %s" % newkeys, R2.violations
        return "missed", "nothing fired", R2.violations
    finally:
        shutil.rmtree(scratch, ignore_errors=True)


def run(prop, R, seed):
    d = os.path.join(MUTANTS, prop)
    patches = []
    if os.path.isdir(d):
        patches += sorted(os.path.join(d, f) for f in os.listdir(d) if f.endswith(".patch"))
    sd = os.path.join(VERIF, "seeded")
    if os.path.isdir(sd):
        for name in sorted(os.listdir(sd)):
            mp = os.path.join(sd, name, "meta.json")
            pp = os.path.join(sd, name, "patch.diff")
            if os.path.exists(mp) and os.path.exists(pp):
                try:
                    import json
                    mj = json.load(open(mp))
                    if mj.get("property") == prop and not mj.get("obsolete"):
                        patches.append(pp)
                except Exception:
                    pass
    random.Random(seed).shuffle(patches)
    res = []
    for p in patches:
        status, detail, _v = check_patch(prop, p)
        label = os.path.basename(p) if "/seeded/" not in p else "seeded/" + os.path.basename(os.path.dirname(p))
        res.append({"variant": label, "status": status, "detail": detail[:400]})
        if status == "missed":
            print("SENSITIVITY-MISS: property=%s variant=%s %s" % (prop, label, detail[:300]))
        elif status in ("skipped", "nocompile"):
            print("SENSITIVITY-STALE: property=%s variant=%s %s (the variant no longer applies to this tree; it says nothing about the check)" % (prop, label, detail[:200]))
    # the other direction: behaviour-preserving refactorings must leave this property's check silent
    ctl_dir = os.path.join(MUTANTS, "controls")
    ctl = []
    if os.path.isdir(ctl_dir) and os.environ.get("TCVERIF_CONTROLS", "1") != "0":
        # files this property's rules pointed at on the current tree (every obligation carries its location)
        examined = set()
        for o in R.obligations:
            m = re.match(r"^(src/[\w/.-]+\.rs)", o.get("where") or "")
            if m:
                examined.add(m.group(1))
        for f in sorted(os.listdir(ctl_dir)):
            if not f.endswith(".patch"):
                continue
            touched = set(re.findall(r"^\+\+\+ b/(\S+)", open(os.path.join(ctl_dir, f)).read(), re.M))
            if examined and not (touched & examined):
                ctl.append({"control": f, "status": "not-applicable"})
                continue
            status, detail, viol = check_patch(prop, os.path.join(ctl_dir, f))
            from tc.report import load_known
            kn = {e["key"] for e in load_known() if e.get("status") == "known" and e.get("property") == prop}
            fired = sorted({v["key"] for v in viol if v["key"] not in kn}) if status != "skipped" else []
            if status in ("skipped", "nocompile"):
                ctl.append({"control": f, "status": "stale"})
                print("SENSITIVITY-STALE: property=%s control=%s (no longer applies to this tree)" % (prop, f))
            elif fired:
                ctl.append({"control": f, "status": "false-alarm", "keys": fired[:5]})
                print("SENSITIVITY-FALSE-ALARM: property=%s control=%s fired %s" % (prop, f, fired[:3]))
            else:
                ctl.append({"control": f, "status": "silent"})
    R.extra["controls"] = {
        "n": len(ctl),
        "silent": len([c for c in ctl if c["status"] == "silent"]),
        "false_alarms": [c for c in ctl if c["status"] == "false-alarm"],
        "stale": [c["control"] for c in ctl if c["status"] == "stale"],
        "not_applicable": len([c for c in ctl if c["status"] == "not-applicable"]),
        "note": "each control is a behaviour-preserving refactoring applied to a scratch copy; this property's rules must report nothing new on it. Controls that only touch source files at which none of this property's obligations is located are counted as not applicable here (tools/run_controls.py runs every control against every property)",
    }
    R.extra["sensitivity"] = {
        "variants": len(res),
        "detected": len([r for r in res if r["status"] == "detected"]),
        "missed": [r for r in res if r["status"] == "missed"],
        "skipped": [r for r in res if r["status"] in ("skipped", "nocompile")],
        "results": res,
        "note": "each variant is a still-compiling change applied to a scratch copy outside /repo and /verif; the rules are run on facts extracted statically from that copy; hand-written variants expect a named rule, sub-agent changes expect any new violation",
    }


if __name__ == "__main__":
    import sys
    sys.path.insert(0, os.path.dirname(os.path.abspath(__file__)))
    prop, patch = sys.argv[1], sys.argv[2]
    st, detail, viol = check_patch(prop, os.path.abspath(patch))
    print(st, detail)
    for v in viol:
        print("   ", v["key"], "--", v["message"][:200])
