"""Sensitivity corpus (thorough tier): placeholder, filled in later."""


def run(prop, R, seed):
    return
