"""Property -> rules table."""
import r_cloud
import r_panic
import r_transform
import r_sync
import r_txn
import r_taskdb
import r_storage
import r_crypto
import r_wire
import r_servers
import r_task

PROPS = {}

PROPS["C09"] = {
    "rules": [lambda F, R: r_cloud.rule_K(F, R), lambda F, R: r_cloud.rule_ED(F, R), lambda F, R: r_cloud.rule_cleanup(F, R, which=("O1",)), r_cloud.rule_K6],
    "explanation": "Decides structural necessary conditions K1-K5 and ED on the object-store Server impl (DESIGN.md C09); the interleaving semantics are NOT decided.",
    "not_decided": "which candidate get_child_version picks while another client is between put and swap; every interleaving at request granularity",
    "assumptions": ["Service implementations provide an atomic compare_and_swap as documented"],
}
PROPS["C10"] = {
    "rules": [lambda F, R: r_cloud.rule_ED(F, R), lambda F, R: r_cloud.rule_cleanup(F, R)],
    "explanation": "Decides ED, G1-G3 and O1 on CloudServer::cleanup (DESIGN.md C10); safety under all interleavings is NOT decided.",
    "not_decided": "safety under all interleavings with other clients and page boundaries",
    "assumptions": [],
}

PROPS["C18"] = {
    "rules": [lambda F, R: r_panic.rule_panic(F, R)],
    "explanation": "Panic reachability: from every exported read accessor of Task, TaskData, WorkingSet, DependencyMap, Tag, Status, Annotation and every Replica method from which no StorageTxn writer is reachable, the crate-local call graph (closures, trait impls) is followed down to the Storage/StorageTxn trait boundary; every panic construct in that cone (panicking::* calls, unwrap/expect, panicking index/arith APIs from a frozen list, compiler Assert terminators) must be in the reasoned allow table. Holds for every stored string content at once.",
    "not_decided": "panics inside dependencies that are not in the frozen API list; wrong-value misbehaviour; the storage backends below the trait boundary",
    "assumptions": ["the frozen list of panicking std/chrono APIs in rules/r_panic.py is complete for the APIs the cone uses", "storage contract for get_working_set slot 0"],
}

PROPS["C01"] = {
    "rules": [r_transform.rule_TP1, r_sync.rule_S1, r_sync.rule_S2, r_sync.rule_S3, r_sync.rule_S9, r_sync.rule_S10, r_sync.rule_S4, r_sync.rule_S5, r_sync.rule_S6, r_wire.rule_W4, r_storage.rule_N3, r_taskdb.rule_A1],
    "explanation": "A1: the local batch application (what a replica does to its own tasks with the operations it will push) follows the same create/update/delete table as the replay of the server chain; TR/TP1: the transform's complete decision table is extracted statically from MIR and checked exhaustively over the finite abstract input space against the documented application semantics (diamond property).",
    "not_decided": "convergence over whole histories, N replicas, batching arithmetic",
    "assumptions": [],
}
PROPS["C03"] = {
    "rules": [r_transform.rule_TP1, r_transform.rule_WIN, r_sync.rule_S4, r_sync.rule_S9, r_sync.rule_S10, r_sync.rule_S2, r_wire.rule_W4],
    "explanation": "TR/WIN: the extracted transform table yields the documented conflict winners (final-state oracle), survivors are field-for-field their operand, and the winner does not depend on argument order for strictly ordered timestamps; exhaustive over the abstract space.",
    "not_decided": "causally ordered overrides and three-replica orderings (consequences of sequential application over a history)",
    "assumptions": [],
}
PROPS["C04"] = {
    "rules": [r_transform.rule_CANCEL, r_sync.rule_T1_sync, r_sync.rule_S3, r_sync.rule_S1, r_sync.rule_S9, r_taskdb.rule_R6, r_servers.rule_K7, r_storage.rule_D, r_sync.rule_S11],
    "explanation": "D2-D4: on SQLite `dropped on error` is a real rollback - one rusqlite transaction per StorageTxn, committed only by commit, drop behaviour untouched, and every proxied call returns the actor's verdict; R6: the replica-level sync rebuilds the working set after every successful TaskDb sync, also one that exchanged nothing (the repeat of a sync interrupted between its two transactions); K7: the object-store server keeps the uploaded version when the outcome of the swap is unknown (`effect then lost reply` on the one request that makes a version the head), otherwise the repeated sync is out of sync for good; TR/CANCEL: identical operations cancel to (None, None).",
    "not_decided": "per-crash-point behaviour",
    "assumptions": [],
}
PROPS["C02"] = {
    "rules": [r_sync.rule_S1, r_sync.rule_S3, r_sync.rule_S7, r_sync.rule_S8, r_sync.rule_S9, r_sync.rule_S10, r_sync.rule_S2],
    "explanation": "SY rules on the retry arm of the sync function (which no test executes): S1 no stale re-read after the base version advanced, S2 every pending operation is in the rebased container, S3 sync_complete only when nothing is pending, S7 OutOfSync only on a repeated demand, S8 a rejection leads back to a pull, S9 accepted operations are removed.",
    "not_decided": "termination and convergence over all interleavings of N racing clients; the server's behaviour over time",
    "assumptions": [],
}
PROPS["C12"] = {
    "rules": [r_sync.rule_N1, r_sync.rule_N2, r_storage.rule_N3, r_storage.rule_N3_overrides, r_storage.rule_N4, r_storage.rule_N5, r_storage.rule_Q6, r_sync.rule_S11],
    "explanation": "Q6: make_snapshot at the end of a sync sees the versions the same transaction applied, also on the in-memory storage; N1 snapshot only with nothing pending and labelled with the accepted id; N2 urgency gate table and SnapshotUrgency declaration order; N3 both is_empty defaults check tasks, base version and unsynced operations, and snapshots are fetched/applied only on that outcome; N4 apply_snapshot writes every decoded task and sets the base version; N5 codec pairing.",
    "not_decided": "equality of snapshot content with the chain replay for all histories and Unicode contents",
    "assumptions": [],
}
PROPS["C05"] = {
    "rules": [lambda F, R: r_txn.rule_T1(F, R, only=("commit_operations",)), r_taskdb.rule_L1, r_taskdb.rule_A1, r_storage.rule_D, r_storage.rule_Q1, r_storage.rule_Q6],
    "explanation": "Q6: reads inside the committing transaction see its earlier writes on the in-memory storage; Q1: on SQLite each StorageTxn call of the batch reaches the storage method of the same name with the same arguments (proxy and actor tables agree); T1 on TaskDb::commit_operations (one transaction, commit last); L1 every operation logged in order unconditionally from the applied `operations`; D2-D4 for the SQLite side of `whole batch or none`: one real transaction, committed only by commit, and every proxied call (not only commit) returns the actor thread's reply, so a rejected write stops the batch; A1 also bounds how entries leave the write cache (one key at a time or a complete drain); A1 dispatch table of apply_operations (cache invalidation on create/delete, update through the cache, final flush).",
    "not_decided": "equivalence of the write-cached batch application with one-at-a-time application for every batch; the replica invariant as a state predicate",
    "assumptions": [],
}
PROPS["C07"] = {
    "rules": [r_taskdb.rule_U1, r_taskdb.rule_U2, r_taskdb.rule_U3, lambda F, R: r_txn.rule_T1(F, R, only=("commit_reversed_operations",)), r_taskdb.rule_R4, r_task.rule_M1, r_task.rule_M2, r_storage.rule_Q4],
    "explanation": "Q4: the storage-level withdrawal that undo relies on (remove_operation) compares decoded operations in both storages - a comparison of stored text fails for a Delete whose old_task map serialises in another order, and undo of a deletion then errors on SQLite; U1 reversal table of reverse_ops (exhaustive over Operation variants, field-level: old value restored); U2 commit_reversed_operations (early returns write nothing, suffix-equality tail match, reversed iteration, every reversed op applied, remove_operation per undone op); U3 only unsynchronised operations are offered and removable; T1 single transaction; rebuild without renumbering afterwards.",
    "not_decided": "exact state restoration for all histories (needs recorded old values to be right, see C19); interaction with later commits",
    "assumptions": [],
}
PROPS["C15"] = {
    "rules": [r_taskdb.rule_R1, r_taskdb.rule_R2, r_taskdb.rule_R5, r_taskdb.rule_R3, r_taskdb.rule_R4, lambda F, R: r_txn.rule_T1(F, R, only=("rebuild_working_set",)), r_taskdb.rule_R6, r_taskdb.rule_R7, r_taskdb.rule_R8],
    "explanation": "R1 keep/blank/drop table of one scan iteration of the working-set rebuild (all 7 rows); R2 slot 0 blank, scan from 1, newcomers = all tasks not seen and wanted, appended after the scan; R3 predicate truth tables (status in {pending, recurring}; commit trigger); R4 constant-false renumber after sync and undo; T1.",
    "not_decided": "the resulting numbering as a function of arbitrary prior working sets over sequences of rebuilds; that the write-back makes storage equal to the computed vector",
    "assumptions": [],
}
PROPS["C17"] = {
    "rules": [lambda F, R: r_txn.rule_T1(F, R), r_storage.rule_D, r_storage.rule_D6],
    "explanation": "T1 for all four mutating TaskDb actions: an action split over two storage transactions can interleave with another handle.",
    "not_decided": "the schedule-level outcome: it is SQLite's locking that serialises handles and processes",
    "assumptions": ["SQLite's transaction isolation"],
}
PROPS["C06"] = {
    "rules": [lambda F, R: r_txn.rule_T1(F, R), r_sync.rule_T1_sync, r_storage.rule_D, r_storage.rule_Q1, r_storage.rule_D6],
    "explanation": "D6: the storage handle keeps no replica data outside the SQLite transaction - a value cached in the handle survives a rollback and is then read by the next transaction as if it had been committed; T1 for all four mutating actions; D2 who-may-commit (actor commits only in its Commit arm, via Q1's actor table; rusqlite commit only in the transaction's commit; no set_drop_behavior/unchecked_transaction); D3 one rusqlite transaction per StorageTxn and every statement through it; D4 the proxy returns the actor's commit reply; D5 crash-safe journal mode.",
    "not_decided": "what SQLite does at a process kill; durability of an acknowledged commit (SQLite + OS); the per-storage-call crash sweep",
    "assumptions": ["rusqlite's default drop behaviour is rollback", "SQLite's atomic commit in WAL/rollback-journal modes"],
}
PROPS["C16"] = {
    "rules": [r_storage.rule_Q1, r_storage.rule_Q2, r_storage.rule_Q3, r_storage.rule_Q4, r_storage.rule_N3, r_storage.rule_N3_overrides, r_storage.rule_Q6, r_storage.rule_Q5],
    "explanation": "Q6: the in-memory transaction reads through its own view (read-your-writes), as the SQLite transaction does by construction; Q1 proxy/actor tables agree (21 methods x 22 messages, crossed wires compile); Q2 every modifying SQL statement and commit dominated by check_write_access, schema upgrade only read-write; Q3 in-memory add_to_working_set returns the stored index; N3 sibling is_empty defaults agree.",
    "not_decided": "equality of results for all call sequences, persistence across reopen; of the legacy-schema upgrades only that no stored column is lost (Q5), not that the rewritten values are right",
    "assumptions": [],
}
PROPS["C13"] = {
    "rules": [r_crypto.rule_X1, r_crypto.rule_X2, r_crypto.rule_X3, r_crypto.rule_X4, r_crypto.rule_X5, r_crypto.rule_X6, r_crypto.rule_X7, r_crypto.rule_X8],
    "explanation": "The sealing scheme is constants, call identities and dataflow, all decided on every path: X1 KDF/AEAD parameters and that the secret and salt reach the KDF unmodified; X2 AAD layout; X3 seal (fresh nonce filled before use, AAD from the payload's version id, tag appended, envelope layout); X4 unseal (length and exact format-byte checks, slices, AEAD failure is an error, result is the AEAD output); X5 every sink in the three remote backends is fed from seal (or key-derivation metadata) and every returned payload comes from unseal; X6 version-id binding table per backend, writer and reader agree; X7 salt provenance.",
    "not_decided": "that ring implements ChaCha20-Poly1305/PBKDF2 correctly; the exhaustive tamper sweep (follows from AEAD once X2-X4 hold)",
    "assumptions": ["ring's AEAD and PBKDF2 are correct", "reqwest/std::fs/serde_json sinks are the only ways bytes leave the host in these modules (sink table in rules/r_crypto.py)"],
}
PROPS["C14"] = {
    "rules": [r_wire.rule_W1, r_wire.rule_W2, r_wire.rule_W3, r_wire.rule_W4, r_sync.rule_S4, r_sync.rule_S10],
    "explanation": "W1 the SyncOp type is exactly the documented operation format (no undo point, no old values); W2 writer and reader wire-name tables read from the serde impls agree with the documentation; W3 the history segment is serde_json of Version{operations: Vec<SyncOp>} filled from unsynced_operations through from_op; W4 conversion tables field by field; W5 no reordering between load and serialisation.",
    "not_decided": "RFC 3339 rendering/parsing of timestamps at other precisions (chrono/serde behaviour); acceptance of every well-formed foreign document",
    "assumptions": ["serde_json / chrono serde implementations behave as documented"],
}
PROPS["C08"] = {
    "rules": [r_servers.rule_P1, r_servers.rule_P2, r_servers.rule_P3, r_servers.rule_P4, lambda F, R: r_cloud.rule_K(F, R), r_servers.rule_A1_local, r_servers.rule_A1_drop, r_servers.rule_GC, r_servers.rule_GC3, r_servers.rule_GS1, r_servers.rule_GI, r_crypto.rule_X4],
    "explanation": "P1 acceptance-guard path tables for the local, object-store and git backends; P2 identity of returned ids (child vs parent, Ok(id) is the stored fresh id); P3 HTTP mapping table against docs/http.md (endpoints, verbs, content types, headers, 409/404 mapping, urgency header); K1-K5 for the object store; A1 for the local backend.",
    "not_decided": "conformance over long call sequences; byte-for-byte round trips of arbitrary payloads through SQLite/git/HTTP encodings; `changes nothing on rejection` as a state property",
    "assumptions": ["a protocol-conformant sync server on the other side of the HTTP client"],
}
PROPS["C11"] = {
    "rules": [r_servers.rule_A1_local, r_servers.rule_A1_drop, lambda F, R: r_cloud.rule_K(F, R, which=("K2", "K5", "K4")), r_servers.rule_K7, r_servers.rule_GI, r_servers.rule_GC, r_servers.rule_GC4, r_servers.rule_GC5],
    "explanation": "A1 the local backend's accept path is one SQLite transaction (read, both writes, one commit); K5/K2 object store: the version object exists before `latest` can name it and nothing is acknowledged without the swap; GI git: commit of version file and meta precedes the push and Ok only on push()==true.",
    "not_decided": "git's and SQLite's on-disk behaviour at a kill; restart-and-continue histories as such (GC4/GC5 decide only that a failed or interrupted git add_version is undone, on the error exit and at the next open, and report the unpushed-commit window as a known finding)",
    "assumptions": [],
}
PROPS["C19"] = {
    "rules": [r_task.rule_M1, r_task.rule_M2, r_task.rule_M3, r_task.rule_M4, r_task.rule_M5, r_task.rule_M6, r_task.rule_M7, r_task.rule_M8, r_task.rule_M9, r_taskdb.rule_A1, r_task.rule_M10, r_task.rule_M11],
    "explanation": "A1: what the mutators recorded is what the commit stores - the batch application writes every cached update (also when a Create for the same task follows in the batch); M1 single writer of the task map / single constructor of Operations; M2 TaskData::update records the looked-up previous value (lookup precedes the change), delete records the old task; M3 every public Task mutator funnels into TaskData::update; M4 `modified` refresh table of set_value (exhaustive, 6 paths) incl. the once-per-session flag; M5 status/end table of set_status (8 rows); M6 reserved-name guards dominate the writes; M7 writer/reader key-prefix vocabulary and timestamp encoding; M8 synthetic-tag table and pending-gated dependency edges.",
    "not_decided": "agreement of the held object with storage after commit for all mutator sequences (follows from M1-M3 + C05, but is a statement about sequences)",
    "assumptions": [],
}
PROPS["C20"] = {
    "rules": [r_task.rule_E, r_transform.rule_DELETE_WINS, r_task.rule_M1, r_storage.rule_N3, r_storage.rule_Q6, r_sync.rule_S9, r_sync.rule_S10],
    "explanation": "S9/S10: the expiry deletions survive a rejected push and keep their order; Q6: a snapshot made in the sync that pulled the deletion does not resurrect the task; E1 expiration predicate (status == Deleted's storage string, `modified` parsed, strictly older than now - Duration::days(180)); E2 purge through TaskData::delete + commit_operations (ordinary synchronised deletions); TR/DEL delete beats a concurrent update in both argument orders (exhaustive over the abstract space); M1 operations are only built by TaskData.",
    "not_decided": "the multi-replica outcome after sync as a property of histories",
    "assumptions": [],
}
# reasons shown in MANIFEST.not_applicable for properties not (yet) claimed
NOT_YET = {}


# ---------------------------------------------------------------------------------------
# Cross-wiring.  A rule is attached to every property it is a necessary condition of: three
# rounds of independent seeded changes showed that most misses were rules that existed under a
# neighbouring property (DESIGN.md 7.5-7.7).  Rules that carry a known finding (O1, GC5) stay
# with the properties the finding is recorded for.

def _T1_commit(F, R):
    r_txn.rule_T1(F, R, only=("commit_operations",))


def _T1_sync_action(F, R):
    r_txn.rule_T1(F, R, only=("sync",))


def _ED(F, R):
    r_cloud.rule_ED(F, R)


def _cleanup_G(F, R):
    r_cloud.rule_cleanup(F, R, which=("G1", "G2", "G3", "G4"))


def _K_core(F, R):
    r_cloud.rule_K(F, R, which=("K2", "K5", "K4"))


def _K_all(F, R):
    r_cloud.rule_K(F, R)


def _cleanup_G4(F, R):
    r_cloud.rule_cleanup(F, R, which=("G4",))


G_SYNC = [r_sync.rule_S1, r_sync.rule_S2, r_sync.rule_S3, r_sync.rule_S4, r_sync.rule_S5, r_sync.rule_S6, r_sync.rule_S7, r_sync.rule_S8,
          r_sync.rule_S9, r_sync.rule_S10, r_sync.rule_S11, r_sync.rule_N1, r_sync.rule_N2, r_sync.rule_T1_sync, _T1_sync_action]
G_TRANSFORM = [r_transform.rule_TP1, r_transform.rule_WIN, r_transform.rule_CANCEL, r_transform.rule_DELETE_WINS]
G_WIRE = [r_wire.rule_W1, r_wire.rule_W2, r_wire.rule_W3, r_wire.rule_W4]
G_APPLY = [r_taskdb.rule_A1, r_taskdb.rule_L1, r_taskdb.rule_L2, _T1_commit, r_taskdb.rule_ERR]
G_SNAP = [r_storage.rule_N3, r_storage.rule_N3_overrides, r_storage.rule_N4, r_storage.rule_N5]
G_SQLITE = [r_storage.rule_D, r_storage.rule_D6, r_storage.rule_Q1, r_storage.rule_Q2, r_storage.rule_Q3, r_storage.rule_Q4, r_storage.rule_Q5, r_storage.rule_Q7, r_storage.rule_Q9, r_storage.rule_Q10]
G_INMEM = [r_storage.rule_Q6, r_storage.rule_Q8]
G_SRV = [r_servers.rule_P1, r_servers.rule_P2, r_servers.rule_P4, r_servers.rule_P5, r_servers.rule_A1_local, r_servers.rule_A1_drop, _K_core, r_servers.rule_K7,
         r_servers.rule_GI, r_servers.rule_GC, r_servers.rule_GC3, r_servers.rule_GC4, r_servers.rule_GS1, r_servers.rule_GS2, r_servers.rule_GC6, r_servers.rule_GK1, _ED]
G_CRYPTO = [r_crypto.rule_X1, r_crypto.rule_X2, r_crypto.rule_X3, r_crypto.rule_X4, r_crypto.rule_X5, r_crypto.rule_X6, r_crypto.rule_X7, r_crypto.rule_X8]
G_WS = [r_taskdb.rule_R1, r_taskdb.rule_R2, r_taskdb.rule_R3, r_taskdb.rule_R4, r_taskdb.rule_R5, r_taskdb.rule_R6, r_taskdb.rule_R7, r_taskdb.rule_R8]

WIRING = {
    "C01": (G_TRANSFORM + G_SYNC + G_WIRE + G_APPLY + G_SNAP + G_SQLITE + G_INMEM + G_SRV,
            "the whole path from a local change to every replica: transform table (TR), the sync loop (S1-S11, N1, N2), the operation format (W1-W4), the local batch application (A1, L1, L2), snapshots and emptiness (N3-N5), and what the two storages must keep for the replica invariant (D, D6, Q1-Q6)"),
    "C02": (G_SYNC + G_TRANSFORM + G_SRV + G_SNAP,
            "racing syncs meet at the server's compare-and-set: the acceptance rules of every backend (P1, P2, P5, A1, K2/K4/K5, K7, GI, GC3) belong to this property as much as the client's retry loop (S7-S10)"),
    "C03": (G_TRANSFORM + G_SYNC + G_APPLY + G_WIRE + G_SNAP + G_SRV,
            "no lost update: the conflict table (WIN), the rebase loop, what is sent (W4) and the local application of the batch that recorded the update (A1)"),
    "C04": (G_SYNC + G_TRANSFORM + G_SNAP + G_SQLITE + G_INMEM + G_SRV + [r_taskdb.rule_R6],
            "an interrupted sync is repeatable: one transaction dropped on error (T1s, D2-D4, D6), emptiness judged with the pending operations (N3, N3o), own version cancelled (CANCEL), servers that survive a lost reply (K7, A1, GC4), working set rebuilt on the repeat (R6)"),
    "C05": (G_APPLY + G_SQLITE + G_INMEM, None),
    "C06": (G_SQLITE + G_APPLY + [r_sync.rule_T1_sync, r_taskdb.rule_U2], "an error inside commit, undo or rebuild abandons the transaction (ERR, U2): a swallowed error commits half an action"),
    "C07": (G_SQLITE + G_INMEM + G_SYNC + [r_taskdb.rule_A1, r_taskdb.rule_ERR], "undo on SQLite: the withdrawal compares decoded operations (Q4), the synced flag survives schema upgrades (Q5), the transaction is real (D)"),
    "C08": (G_SRV + G_CRYPTO, "every backend's acceptance and retrieval path including the sealing layer the three remote ones share (X2-X4, X7, X8)"),
    "C09": ([r_servers.rule_K7, r_cloud.rule_K8, r_cloud.rule_K9, r_cloud.rule_G56], "where cleanup may run inside add_version (K8), what add_version itself may delete (K9), one head read per cleanup and no deletion outside it (G5, G6)"),
    "C10": ([_K_all, r_servers.rule_K7, r_cloud.rule_K8, r_cloud.rule_K9, r_cloud.rule_G56], "K8/K9/G5/G6: cleanup only after a won swap, add_version deletes only its own upload, one head read per cleanup, no deletion outside cleanup; cleanup is safe only against an add_version that uploads the version before it swaps the head (K5) and never leaves the head naming a missing object (K7)"),
    "C11": ([r_servers.rule_P5, r_servers.rule_P4, _cleanup_G, _ED, r_cloud.rule_K8, r_cloud.rule_K9], "a cleanup that stops between its deletions leaves a usable store (G4: snapshots go before the versions behind them)"),
    "C12": (G_SNAP + G_SYNC + G_INMEM + [r_storage.rule_Q1, _cleanup_G], "a snapshot that is still offered leads to the head: the object store deletes superseded snapshots before the versions behind the retained one (G2-G4)"),
    "C13": ([r_servers.rule_GS1, r_servers.rule_GS2], "the key a handle seals with is the one derived from the salt the remote holds (X7 for the object store, GS1 for git)"),
    "C14": (G_WIRE + [r_sync.rule_S4, r_sync.rule_S9, r_sync.rule_S10, r_storage.rule_Q10, r_storage.rule_Q7, r_storage.rule_Q4], "what is sent is what was committed: the SQLite storage removes recorded operations only in remove_operation and sync_complete (Q10, Q7, Q4)"),
    "C15": (G_WS + [r_storage.rule_Q3, r_storage.rule_Q6, r_storage.rule_D6], None),
    "C16": (G_SQLITE + G_INMEM + G_SNAP, None),
    "C17": (G_SQLITE + [r_servers.rule_P5, r_taskdb.rule_R7, r_taskdb.rule_L1, r_taskdb.rule_L2], "no working-set entry duplicated by a second handle (R7: the add-once guard sees the whole stored working set inside the transaction) and a batch is one transaction (L2)"),
    "C19": ([r_taskdb.rule_A1, r_taskdb.rule_L1, r_taskdb.rule_L2], None),
    "C20": (G_SYNC + G_SNAP + G_INMEM + [r_transform.rule_DELETE_WINS, r_taskdb.rule_A1, _cleanup_G4], "G4: the object store never keeps an older snapshot (holding the expired task) while the versions carrying its deletion are gone"),
}


def _apply_wiring():
    for pid, (rules, text) in WIRING.items():
        spec = PROPS[pid]
        have = {getattr(r, "__name__", None) for r in spec["rules"] if getattr(r, "__name__", "<lambda>") != "<lambda>"}
        # rules already present as lambdas (rule_K / rule_T1 variants) are recognised by what they call
        src_names = set()
        for r in spec["rules"]:
            if getattr(r, "__name__", "") == "<lambda>":
                co = r.__code__
                src_names |= set(co.co_names)
        for r in rules:
            n = r.__name__
            if n in have:
                continue
            if n == "_K_core" and ("rule_K" in src_names):
                continue
            if n == "_K_all" and ("rule_K" in src_names):
                continue
            if n == "_T1_commit" and ("rule_T1" in src_names):
                continue
            if n == "_ED" and ("rule_ED" in src_names):
                continue
            if n in ("_cleanup_G", "_cleanup_G4") and ("rule_cleanup" in src_names):
                continue
            spec["rules"].append(r)
            have.add(n)
        if text:
            spec["explanation"] = spec["explanation"] + " Cross-wired: " + text + "."


_apply_wiring()
