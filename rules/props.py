"""Property -> rules table."""
import r_cloud
import r_panic
import r_transform
import r_sync

PROPS = {}

PROPS["C09"] = {
    "rules": [lambda F, R: r_cloud.rule_K(F, R), lambda F, R: r_cloud.rule_ED(F, R)],
    "explanation": "Decides structural necessary conditions K1-K5 and ED on the object-store Server impl (DESIGN.md C09); the interleaving semantics are NOT decided.",
    "not_decided": "which candidate get_child_version picks while another client is between put and swap; every interleaving at request granularity",
    "assumptions": ["Service implementations provide an atomic compare_and_swap as documented"],
}
PROPS["C10"] = {
    "rules": [lambda F, R: r_cloud.rule_ED(F, R), lambda F, R: r_cloud.rule_cleanup(F, R)],
    "explanation": "Decides ED, G1-G3 and O1 on CloudServer::cleanup (DESIGN.md C10); safety under all interleavings is NOT decided.",
    "not_decided": "safety under all interleavings with other clients and page boundaries",
    "assumptions": [],
}

PROPS["C18"] = {
    "rules": [lambda F, R: r_panic.rule_panic(F, R)],
    "explanation": "Panic reachability: from every exported read accessor of Task, TaskData, WorkingSet, DependencyMap, Tag, Status, Annotation and every Replica method from which no StorageTxn writer is reachable, the crate-local call graph (closures, trait impls) is followed down to the Storage/StorageTxn trait boundary; every panic construct in that cone (panicking::* calls, unwrap/expect, panicking index/arith APIs from a frozen list, compiler Assert terminators) must be in the reasoned allow table. Holds for every stored string content at once.",
    "not_decided": "panics inside dependencies that are not in the frozen API list; wrong-value misbehaviour; the storage backends below the trait boundary",
    "assumptions": ["the frozen list of panicking std/chrono APIs in rules/r_panic.py is complete for the APIs the cone uses", "storage contract for get_working_set slot 0"],
}

PROPS["C01"] = {
    "rules": [r_transform.rule_TP1, r_sync.rule_S1, r_sync.rule_S2, r_sync.rule_S3, r_sync.rule_S9, r_sync.rule_S4, r_sync.rule_S5, r_sync.rule_S6],
    "explanation": "TR/TP1: the transform's complete decision table is extracted statically from MIR and checked exhaustively over the finite abstract input space against the documented application semantics (diamond property).",
    "not_decided": "convergence over whole histories, N replicas, batching arithmetic",
    "assumptions": [],
}
PROPS["C03"] = {
    "rules": [r_transform.rule_TP1, r_transform.rule_WIN],
    "explanation": "TR/WIN: the extracted transform table yields the documented conflict winners (final-state oracle), survivors are field-for-field their operand, and the winner does not depend on argument order for strictly ordered timestamps; exhaustive over the abstract space.",
    "not_decided": "causally ordered overrides and three-replica orderings (consequences of sequential application over a history)",
    "assumptions": [],
}
PROPS["C04"] = {
    "rules": [r_transform.rule_CANCEL, r_sync.rule_T1_sync, r_sync.rule_S3, r_sync.rule_S1, r_sync.rule_S9],
    "explanation": "TR/CANCEL: identical operations cancel to (None, None).",
    "not_decided": "per-crash-point behaviour",
    "assumptions": [],
}
PROPS["C02"] = {
    "rules": [r_sync.rule_S1, r_sync.rule_S3, r_sync.rule_S7, r_sync.rule_S8, r_sync.rule_S9, r_sync.rule_S2],
    "explanation": "SY rules on the retry arm of the sync function (which no test executes): S1 no stale re-read after the base version advanced, S2 every pending operation is in the rebased container, S3 sync_complete only when nothing is pending, S7 OutOfSync only on a repeated demand, S8 a rejection leads back to a pull, S9 accepted operations are removed.",
    "not_decided": "termination and convergence over all interleavings of N racing clients; the server's behaviour over time",
    "assumptions": [],
}
PROPS["C12"] = {
    "rules": [r_sync.rule_N1, r_sync.rule_N2],
    "explanation": "N1 snapshot only with nothing pending and labelled with the accepted id; N2 urgency gate table and SnapshotUrgency declaration order.",
    "not_decided": "equality of snapshot content with the chain replay for all histories and Unicode contents",
    "assumptions": [],
}
# reasons shown in MANIFEST.not_applicable for properties not (yet) claimed
NOT_YET = {}
