"""Property -> rules table."""
import r_cloud

PROPS = {}

PROPS["C09"] = {
    "rules": [lambda F, R: r_cloud.rule_K(F, R), lambda F, R: r_cloud.rule_ED(F, R)],
    "explanation": "Decides structural necessary conditions K1-K5 and ED on the object-store Server impl (DESIGN.md C09); the interleaving semantics are NOT decided.",
    "not_decided": "which candidate get_child_version picks while another client is between put and swap; every interleaving at request granularity",
    "assumptions": ["Service implementations provide an atomic compare_and_swap as documented"],
}
PROPS["C10"] = {
    "rules": [lambda F, R: r_cloud.rule_ED(F, R), lambda F, R: r_cloud.rule_cleanup(F, R)],
    "explanation": "Decides ED, G1-G3 and O1 on CloudServer::cleanup (DESIGN.md C10); safety under all interleavings is NOT decided.",
    "not_decided": "safety under all interleavings with other clients and page boundaries",
    "assumptions": [],
}
