"""T1: single-transaction discipline of the mutating TaskDb actions (C04-C07, C15, C17)."""
import re

from tc.facts import call_names, loc
from tc.util import calls_matching, cfg_of, flow_of, is_plumbing, where
import r_panic

TXN = "storage::StorageTxn"
STORAGE_TXN = "storage::Storage::txn"


def actions(F):
    """mutating TaskDb actions: inherent methods of TaskDb<S> from which a StorageTxn writer is reachable"""
    writers = r_panic.writer_methods(F)
    wpaths = {TXN + "::" + w for w in writers}
    out = {}
    for p, b in F.bodies.items():
        im = b.get("impl") or {}
        if b["kind"] != "AssocFn" or not im.get("self", "").startswith("taskdb::TaskDb<") or im.get("trait"):
            continue
        cone = F.reachable_from([p], stop=lambda q: False)
        # do not descend below the storage trait boundary: trait calls are not in the call graph's
        # impl edges for dyn StorageTxn? they are (all impls); restrict cone to taskdb::* bodies
        cone = {q for q in cone if q == p or q.startswith("taskdb::") or q.startswith("<taskdb::")}
        hits = set()
        for q in cone:
            for (_i, t) in F.calls_in.get(q, ()):
                for n in call_names(t):
                    if n in wpaths:
                        hits.add(n)
        if hits:
            out[p] = {"body": F.real_body(p), "cone": cone, "writers": hits}
    return out, wpaths


def rule_T1(F, R, only=None):
    R.begin("T1", "each mutating TaskDb action opens exactly one storage transaction (not in a loop), nothing it calls opens another, every StorageTxn write is made through it, and commit is the last storage interaction, at most once per path")
    acts, wpaths = actions(F)
    names = sorted(a.split("::")[-1] for a in acts)
    R.floor("T1", "mutating TaskDb actions", len(acts), 4)
    R.floor("T1", "StorageTxn writer methods (from the SQLite check_write_access guards)", len(wpaths), 11)
    for p in sorted(acts):
        if only and p.split("::")[-1] not in only:
            continue
        a = acts[p]
        b = a["body"]
        c = cfg_of(b)
        fl = flow_of(b)
        short = p.split("::")[-1]
        # (i) one txn()
        tx = calls_matching(c, "^" + re.escape(STORAGE_TXN) + "$")
        if len(tx) != 1:
            R.violation("T1", p, "txn-count", "%s opens %d storage transactions (%s); a fault or another handle between them sees part of the action" % (short, len(tx), [loc(t["sp"]) for _i, t in tx]), where(b))
            continue
        ti, tt = tx[0]
        if c.in_loop(ti):
            R.violation("T1", p, "txn-in-loop", "%s opens its transaction inside a loop" % short, where(b, ti))
            continue
        R.ok("T1", "%s: one Storage::txn()" % short, where(b, ti))
        # (ii) nothing in the cone opens another
        bad = []
        for q in sorted(a["cone"]):
            if F.owner(q) == p or q == p:
                continue
            for (i, t) in F.calls_in.get(q, ()):
                if STORAGE_TXN in call_names(t):
                    bad.append((q, i, t))
        if bad:
            q, i, t = bad[0]
            R.violation("T1", p, "nested-txn:%s" % F.owner(q), "%s, reached from %s, opens its own storage transaction" % (F.owner(q), short), where(F.bodies[q], i))
        else:
            R.ok("T1", "%s: no helper opens a transaction" % short, where(b))
        # (iii)+(iv) txn-derived receivers, commit last
        is_txn = lambda t: STORAGE_TXN in call_names(t)
        commits = []
        for q in sorted(a["cone"]):
            qb = F.bodies[q]
            qc = cfg_of(qb)
            qf = flow_of(qb)
            for (i, t) in qc.calls():
                ns = call_names(t)
                if not any(n.startswith(TXN + "::") for n in ns):
                    continue
                if any(n == TXN + "::commit" for n in ns):
                    commits.append((qb, qc, i, t))
                if F.owner(q) == p or q == p:
                    s = qf.slice_operand(t["args"][0], stop=is_txn)
                    if not any(r[0] == "call" and r[1] == ti for r in s.roots):
                        R.violation("T1", p, "write-outside-txn", "a StorageTxn call in %s is not made on the transaction opened by the action" % short, where(qb, i))
        if not commits:
            R.violation("T1", p, "no-commit", "%s never commits its transaction" % short, where(b))
            continue
        for (qb, qc, i, t) in commits:
            if qc.in_loop(i):
                R.violation("T1", p, "commit-in-loop", "commit inside a loop in %s" % qb["owner_fn"], where(qb, i))
                continue
            after = qc.reachable_after(i)
            late = []
            for j in after:
                tt2 = qc.term(j)
                if tt2 and tt2["k"] == "call":
                    for n in call_names(tt2):
                        if n.startswith(TXN + "::") or n == STORAGE_TXN or n.startswith("server::types::Server::"):
                            late.append((j, n))
            if late:
                R.violation("T1", p, "interaction-after-commit", "%s is reachable after commit in %s" % (late[0][1], qb["owner_fn"]), where(qb, late[0][0]))
            else:
                R.ok("T1", "%s: commit is the last storage interaction in %s" % (short, qb["owner_fn"]), where(qb, i))
        # (v) what was written is committed: in the function that holds the commit, no successful return is
        # reachable from a write (direct or through a helper) without passing the commit
        from tc.util import error_blocks
        for fnpath in sorted({qb["path"] for (qb, _qc, _i, _t) in commits}):
            qb = F.bodies[fnpath]
            qc = cfg_of(qb)
            cblocks = {i for (qb2, _qc2, i, _t2) in commits if qb2["path"] == fnpath}
            errs = error_blocks(qc)

            def writes(t):
                for n in call_names(t):
                    if n in wpaths and not n.endswith("::commit"):
                        return n
                    nn = _norm(n)
                    if nn in F.bodies and (nn.startswith("taskdb::") or nn.startswith("<taskdb::")) and nn != _norm(fnpath):
                        for q2 in F.reachable_from([nn]):
                            if not (q2.startswith("taskdb::") or q2.startswith("<taskdb::")):
                                continue
                            for (_j, t2) in F.calls_in.get(q2, ()):
                                if any(x in wpaths and not x.endswith("::commit") for x in call_names(t2)):
                                    return n
                return None
            lost = None
            for (wi, wt) in qc.calls():
                wn = writes(wt)
                if wn is None or wi in cblocks:
                    continue
                r = qc.reachable_after(wi, removed=cblocks | errs)
                if any(k in r for k in qc.exits()):
                    lost = (wi, wn)
                    break
            if lost:
                R.violation("T1", p, "write-not-committed:" + lost[1].split("::")[-1], "%s can return successfully after %s without committing: the write is discarded with the dropped transaction although the action reports success" % (qb["owner_fn"].split("::")[-1], lost[1].split("::")[-1]), where(qb, lost[0]))
            else:
                R.ok("T1", "%s: every successful return after a write has passed the commit" % qb["owner_fn"].split("::")[-1], where(qb))
        # helpers that commit: after they return, the action does nothing more with storage
        helper_commit_owners = {qb["owner_fn"] for (qb, _c, _i, _t) in commits if qb["owner_fn"] != b["owner_fn"]}
        for (i, t) in c.calls():
            if any(_norm(n) in {_norm(h) for h in helper_commit_owners} for n in call_names(t)):
                after = c.reachable_after(i)
                late = []
                for j in after:
                    tt2 = c.term(j)
                    if tt2 and tt2["k"] == "call":
                        for n in call_names(tt2):
                            if n.startswith(TXN + "::") or n == STORAGE_TXN:
                                late.append((j, n))
                if late:
                    R.violation("T1", p, "interaction-after-committing-helper", "%s calls %s after the helper that commits returned" % (short, late[0][1]), where(b, late[0][0]))
                # the helper receives the action's transaction
                ok = False
                for aop in t["args"]:
                    s = fl.slice_operand(aop, stop=is_txn)
                    if any(r[0] == "call" and r[1] == ti for r in s.roots):
                        ok = True
                if not ok:
                    R.violation("T1", p, "helper-without-txn", "the committing helper is not given the action's transaction", where(b, i))
                else:
                    R.ok("T1", "%s: committing helper runs on the action's transaction" % short, where(b, i))


def _norm(n):
    return re.sub(r"::<[^>]*>", "", n)
