#!/usr/bin/env python3
"""./check <ID> [--tier quick|thorough] [--repo DIR] [--explain FILE] [--dump BODY]"""
import argparse
import json
import os
import sys
import time
import traceback

HERE = os.path.dirname(os.path.abspath(__file__))
sys.path.insert(0, HERE)

from tc import extract  # noqa: E402
from tc.facts import Facts, dump_body  # noqa: E402
from tc.report import Report  # noqa: E402


def main():
    ap = argparse.ArgumentParser()
    ap.add_argument("prop")
    ap.add_argument("--tier", default=os.environ.get("VERIF_TIER", "quick"), choices=["quick", "thorough"])
    ap.add_argument("--repo", default=os.environ.get("TCVERIF_REPO", "/repo"))
    ap.add_argument("--explain")
    ap.add_argument("--dump")
    ap.add_argument("--no-evidence", action="store_true")
    args = ap.parse_args()
    seed = int(os.environ.get("VERIF_SEED", "0") or 0)

    if args.explain:
        with open(args.explain) as f:
            v = json.load(f)
        print(json.dumps(v, indent=1))
        return 0

    try:
        facts_path, h, info = extract.ensure_facts(args.repo)
    except extract.ExtractError as e:
        print("ERROR: fact extraction failed; no verdict on %s" % args.prop)
        print(str(e))
        return 2
    from tc.util import reset_caches
    reset_caches()
    F = Facts(facts_path)
    if args.dump:
        b = F.real_body(args.dump) or F.bodies.get(args.dump)
        print(dump_body(b) if b else "no such body")
        return 0

    import props  # noqa: E402

    if args.prop not in props.PROPS:
        print("ERROR: no check registered for %s" % args.prop)
        return 2
    spec = props.PROPS[args.prop]
    R = Report(args.prop, args.tier, seed)
    info = dict(info)
    info["repo"] = args.repo
    info["bodies"] = len(F.bodies)
    info["rustc"] = F.meta.get("rustc")
    try:
        for rule in spec["rules"]:
            rule(F, R)
        if args.tier == "thorough" and spec.get("thorough"):
            for rule in spec["thorough"]:
                rule(F, R)
    except Exception:
        tb = traceback.format_exc()
        R.violation("engine", "internal-error", spec["rules"][0].__name__ if spec["rules"] else "?",
                    "the rule engine failed (fail closed): " + tb.splitlines()[-1], details=tb)
    if args.tier == "thorough":
        # the control trees are the same for every property: keep their facts between the properties of a sweep
        os.environ.setdefault("TCVERIF_KEEP_FACTS", "80")
        import sensitivity  # noqa: E402

        sensitivity.run(args.prop, R, seed)
    R.count("functions_analysed", len(F.bodies))
    lines, nviol = R.finish(spec["explanation"], spec.get("assumptions", []), info, spec.get("not_decided"))
    for l in lines:
        print(l)
    npass = len([o for o in R.obligations if o["ok"]])
    print("%s: %d obligations, %d discharged, %d violation(s), %d known finding(s) [%s tier, facts %s%s]" % (
        args.prop, len(R.obligations), npass, nviol, len([l for l in lines if l.startswith("KNOWN-FINDING")]), args.tier, h,
        "" if info.get("reused") else ", extracted in %.1fs" % info.get("extract_s", 0)))
    return 1 if nviol else 0


if __name__ == "__main__":
    sys.exit(main())
