#!/usr/bin/env python3
"""Engine self-test on synthetic CFGs (no repository code involved): dominators, guards,
edge dominance.  Run by setup.sh; a failure aborts setup."""
import os
import sys

sys.path.insert(0, os.path.dirname(os.path.abspath(__file__)))
from tc.cfg import Cfg


def mkbody(edges, n):
    blocks = []
    for i in range(n):
        outs = edges.get(i, [])
        if not outs:
            t = {"k": "return", "sp": {}}
        elif len(outs) == 1:
            t = {"k": "goto", "t": outs[0], "sp": {}}
        else:
            t = {"k": "switch", "o": {"c": {"l": 1, "p": []}}, "ty": "bool",
                 "targets": [["0", outs[0]]], "otherwise": outs[1], "sp": {}}
        blocks.append({"cleanup": False, "s": [], "t": t})
    return {"blocks": blocks, "path": "selftest", "locals": [], "argc": 0, "kind": "Fn"}


def main():
    # diamond with loop: 0->1; 1->{2,3}; 2->4; 3->4; 4->{1,5}
    c = Cfg(mkbody({0: [1], 1: [2, 3], 2: [4], 3: [4], 4: [1, 5]}, 6))
    assert c.dominates(1, 4) and not c.dominates(2, 4) and c.dominates(4, 5)
    assert c.back_edges() == [(4, 1)], c.back_edges()
    assert c.loops()[1] == {1, 2, 3, 4}
    assert c.edge_dominates((1, 2, "0"), 2)
    assert not c.edge_dominates((1, 2, "0"), 4)
    assert c.all_paths_through(0, 5, {4})
    assert not c.all_paths_through(0, 5, {2})
    print("selftest ok")


if __name__ == "__main__":
    main()
