"""Object-store server rules: K1-K5 (C09, C11, C08), ED (C09, C10), G1-G3 + O1 (C10)."""
import re

from tc.facts import call_names, loc
from tc.flow import op_place, pproj
from tc.util import (
    agg_sites,
    bool_origin,
    calls_matching,
    cfg_of,
    const_strs,
    flow_of,
    guards_of,
    is_plumbing,
    local_def,
    switch_true_edges,
    where,
)

SERVER = "server::types::Server"
SERVICE = "server::cloud::service::Service"
ITER_NEXT = "server::cloud::iter::AsyncObjectIterator::next"


def server_impl_methods(F, method):
    """[(impl rec, real body of the method)] for every impl of Server"""
    out = []
    for im in F.impls_of_trait.get(SERVER, []):
        for it in im["items"]:
            if it["name"] == method and it.get("fn"):
                b = F.real_body(it["path"])
                if b is not None:
                    out.append((im, b))
    return out


def cloud_add_version(F):
    for im, b in server_impl_methods(F, "add_version"):
        c = cfg_of(b)
        if calls_matching(c, re.escape(SERVICE) + "::compare_and_swap$"):
            return im, b
    return None, None


def _is_id_gen(t, flow):
    n = t.get("callee") or ""
    return n.startswith("uuid::") and not t["args"] and flow.local_ty(t["dest"]["l"]) == "uuid::Uuid"


def latest_names(F, b):
    """constant object names used as the name argument of the compare-and-swap in add_version"""
    c = cfg_of(b)
    fl = flow_of(b)
    names = set()
    cas = calls_matching(c, re.escape(SERVICE) + "::compare_and_swap$")
    for i, t in cas:
        s = fl.slice_operand(t["args"][1])
        names |= {x for x in const_strs(s, F) if x}
    return names, cas


def readers_of(F, names):
    """functions of the crate that call Service::get with one of `names`; plus those direct sites"""
    fns = set()
    sites = []
    for (bp, bb) in F.callsites.get(SERVICE + "::get", []):
        body = F.bodies[bp]
        if body["blocks"][bb]["cleanup"]:
            continue
        t = body["blocks"][bb]["t"]
        s = flow_of(body).slice_operand(t["args"][1])
        if const_strs(s, F) & names:
            fns.add(F.owner(bp))
            sites.append((bp, bb))
    return fns, sites


def _service_impl_bodies(F):
    out = set()
    for im in F.impls_of_trait.get(SERVICE, []):
        for it in im["items"]:
            out.add(it["path"])
    return out


def rule_K(F, R, which=("K1", "K2", "K3", "K4", "K5")):
    im, b = cloud_add_version(F)
    if b is None:
        R.missing("K", "impl of server::types::Server whose add_version calls Service::compare_and_swap")
        return
    c = cfg_of(b)
    fl = flow_of(b)
    subj = b["owner_fn"]
    names, cas = latest_names(F, b)
    if len(cas) != 1 or not names:
        R.missing("K", "exactly one compare_and_swap with a constant object name in add_version", "found %d, names %s" % (len(cas), names))
        return
    cas_bb, cas_t = cas[0]
    reader_fns, reader_sites = readers_of(F, names)

    # ---- K1: only compare-and-swap writes `latest` ---------------------------------
    if "K1" in which:
        R.begin("K1", "no Service::put / Service::del has a name argument deriving from the constant that names the chain head; compare_and_swap is its only writer")
        nsites = 0
        svc_impl = _service_impl_bodies(F)
        for meth in ("put", "del"):
            for (bp, bb) in F.callsites.get(SERVICE + "::" + meth, []):
                body = F.bodies[bp]
                if body["blocks"][bb]["cleanup"]:
                    continue
                t = body["blocks"][bb]["t"]
                nsites += 1
                s = flow_of(body).slice_operand(t["args"][1])
                hit = const_strs(s, F) & names
                if hit:
                    R.violation("K1", F.owner(bp), "%s(%s)" % (meth, sorted(hit)[0]),
                                "Service::%s is called with the chain-head object name %r: the head may only be written by compare_and_swap" % (meth, sorted(hit)[0]),
                                where(body, bb))
                else:
                    R.ok("K1", "%s name-arg not the head name" % meth, where(body, bb))
        # positive control for the matcher: it must recognise the head name at the sites that do use it
        ctrl = len(reader_sites) + len(cas)
        R.floor("K1", "sites where the head-name matcher fires (get + compare_and_swap; positive control)", ctrl, 2)
        R.floor("K1", "Service::put/del call sites examined", nsites, 2)

    # ---- K2: success => won the swap ---------------------------------------------------
    if "K2" in which:
        R.begin("K2", "every AddVersionResult::Ok construction is reachable only through the `true` outcome of the compare_and_swap")
        oks = agg_sites(c, "AddVersionResult", "Ok")
        R.floor("K2", "AddVersionResult::Ok constructions in add_version", len(oks), 1)
        true_edges = []
        tests = 0
        for s in sorted(c.reach):
            t = c.term(s)
            if not t or t["k"] != "switch" or t.get("ty") != "bool":
                continue
            bo = bool_origin(fl, t["o"])
            if bo and bo[0] == cas_bb:
                tests += 1
                true_edges += switch_true_edges(c, s, bo[2])
        for (i, j, st) in oks:
            if tests == 0:
                R.violation("K2", subj, "Ok-without-swap-test",
                            "AddVersionResult::Ok is constructed but the result of compare_and_swap is never tested", where(b, sp=st["sp"]))
                continue
            # remove the false edges == keep only true edges: Ok must be unreachable when true edges are cut
            r = c.reachable(0, removed_edges=[(a, bb_, lab) for (a, bb_, lab) in true_edges])
            if i in r:
                R.violation("K2", subj, "Ok-reachable-when-swap-failed",
                            "AddVersionResult::Ok can be returned on a path where compare_and_swap did not return true", where(b, sp=st["sp"]))
            else:
                R.ok("K2", "Ok edge-dominated by swap==true", where(b, sp=st["sp"]))

    # ---- K3: the swap expects the value that was validated ---------------------------
    if "K3" in which:
        R.begin("K3", "the expected value of the swap derives from the same read of the head that was compared with the parent version id")
        stop = lambda t: (t.get("callee") in reader_fns) or (t.get("resolved") in reader_fns)
        # normalise: reader_fns are owner fn paths; callee paths carry generic args markers
        def is_reader(t):
            for n in call_names(t):
                if _norm(n) in {_norm(x) for x in reader_fns}:
                    return True
            return False
        s = fl.slice_operand(cas_t["args"][2], stop=is_reader)
        rd = {r[1] for r in s.roots if r[0] == "call" and is_reader(c.term(r[1]))}
        # the guard: comparison between the head and the parent id
        guard_reads = set()
        for i, t in c.calls():
            if not any(re.search(r"PartialEq::(eq|ne)$", n) for n in call_names(t)):
                continue
            sa = fl.slice_operand(t["args"][0], stop=is_reader)
            sb = fl.slice_operand(t["args"][1], stop=is_reader)
            for x, y in ((sa, sb), (sb, sa)):
                xr = {r[1] for r in x.roots if r[0] == "call" and is_reader(c.term(r[1]))}
                if xr and "parent_version_id" in y.upvars():
                    guard_reads |= xr
        if not guard_reads:
            R.missing("K3", "comparison of the stored head with parent_version_id in add_version")
        elif len(rd) != 1 or not rd <= guard_reads:
            R.violation("K3", subj, "swap-expected-not-validated-read",
                        "the `existing_value` of compare_and_swap derives from head read(s) at %s, but the parent check used the read at %s: a version whose parent is not the head can become head"
                        % (sorted(loc(c.term(x)["sp"]) for x in rd) or "none", sorted(loc(c.term(x)["sp"]) for x in guard_reads)), where(b, cas_bb))
        else:
            R.ok("K3", "existing_value derives from the validated read", where(b, cas_bb))

    # ---- K4: one identity ---------------------------------------------------------------
    n_gen = None
    if "K4" in which or "K5" in which:
        stopg = lambda t: _is_id_gen(t, fl)
        sv = fl.slice_operand(cas_t["args"][3], stop=stopg)
        gens = {r[1] for r in sv.roots if r[0] == "call" and _is_id_gen(c.term(r[1]), fl)}
        if len(gens) == 1:
            n_gen = list(gens)[0]
    if "K4" in which:
        R.begin("K4", "the swapped-in value, the version object's name, the sealed version id and the returned id all derive from one fresh id")
        stopg = lambda t: _is_id_gen(t, fl)
        if n_gen is None:
            R.violation("K4", subj, "new_value-not-one-fresh-id", "the new value of compare_and_swap does not derive from exactly one freshly generated id", where(b, cas_bb))
        else:
            R.ok("K4", "new_value <- fresh id", where(b, n_gen))
            # Ok payload
            for (i, j, st) in agg_sites(c, "AddVersionResult", "Ok"):
                s = fl.slice_operand(st["r"]["ops"][0], stop=stopg)
                callroots = {r[1] for r in s.roots if r[0] in ("call", "callnode")}
                other = {r for r in s.roots if r[0] in ("upvar", "param")}
                if callroots != {n_gen} or other:
                    R.violation("K4", subj, "Ok-id-not-the-stored-id", "the id returned in AddVersionResult::Ok does not derive (only) from the id that was swapped into the head", where(b, sp=st["sp"]))
                else:
                    R.ok("K4", "Ok(id) <- fresh id", where(b, sp=st["sp"]))
            # put name
            puts = [(i, t) for i, t in calls_matching(c, re.escape(SERVICE) + "::put$")]
            good = 0
            for i, t in puts:
                s = fl.slice_operand(t["args"][1], stop=stopg)
                g = {r[1] for r in s.roots if r[0] == "call" and _is_id_gen(c.term(r[1]), fl)}
                if g == {n_gen} and "parent_version_id" in s.upvars():
                    good += 1
                    R.ok("K4", "put name <- (parent id, fresh id)", where(b, i))
            if good == 0:
                R.violation("K4", subj, "put-name-not-bound-to-ids", "no Service::put in add_version names its object from both the parent id and the fresh version id", where(b, cas_bb))
            # sealed version id
            seals = calls_matching(c, r"server::encryption::Cryptor::seal$")
            okseal = 0
            for i, t in seals:
                s = fl.slice_operand(t["args"][1], stop=stopg)  # whole Unsealed
                sv = None
                # field version_id of the aggregate
                d = local_def(fl, op_place(t["args"][1])["l"]) if op_place(t["args"][1]) else None
                if d and d[0] == "rv" and d[1]["k"] == "agg" and "version_id" in d[1].get("fields", []):
                    idx = d[1]["fields"].index("version_id")
                    sv = fl.slice_operand(d[1]["ops"][idx], stop=stopg)
                if sv is not None:
                    g = {r[1] for r in sv.roots if r[0] in ("call", "callnode")}
                    if g == {n_gen} and not sv.upvars():
                        okseal += 1
                        R.ok("K4", "Unsealed.version_id <- fresh id", where(b, i))
                    else:
                        R.violation("K4", subj, "sealed-with-other-id", "the version is sealed under an id that is not the fresh version id", where(b, i))
            if not seals:
                R.missing("K4", "Cryptor::seal call in add_version")

    # ---- K5: data before pointer --------------------------------------------------------
    if "K5" in which:
        R.begin("K5", "the put of the version object dominates the compare_and_swap of the head")
        puts = calls_matching(c, re.escape(SERVICE) + "::put$")
        dom = [i for i, t in puts if c.dominates(i, cas_bb) and i != cas_bb]
        if not dom:
            R.violation("K5", subj, "swap-not-dominated-by-put", "compare_and_swap of the head is not preceded on every path by the put of the version object (a head could name an object that does not exist)", where(b, cas_bb))
        else:
            # and the success continuation of put: the error edge of `?` must not reach the swap
            R.ok("K5", "put dominates swap", where(b, dom[0]))


def _norm(n):
    return re.sub(r"::<[^>]*>", "", n)


# ---------------------------------------------------------------------------------------
# ED: error discipline on listings

def rule_ED(F, R, floor=4):
    R.begin("ED", "in the object-store server every Err yielded by a listing iterator leaves the function as Err (a listing never silently stops early)")
    sites = 0
    for (bp, bb) in sorted(F.callsites.get(ITER_NEXT, [])):
        body = F.bodies[bp]
        if body["blocks"][bb]["cleanup"]:
            continue
        if not bp.startswith("server::cloud::server") and "cloud::server" not in bp:
            continue
        sites += 1
        _ed_site(F, R, body, bb)
    R.floor("ED", "listing sites (AsyncObjectIterator::next calls in the object-store server)", sites, floor)


def _ed_site(F, R, body, nb):
    c = cfg_of(body)
    fl = flow_of(body)
    subj = body["owner_fn"]
    stop = lambda t: ITER_NEXT in call_names(t)
    found = 0
    for s in sorted(c.reach):
        t = c.term(s)
        if not t or t["k"] != "switch":
            continue
        d = local_def(fl, op_place(t["o"])["l"]) if op_place(t["o"]) else None
        if not d or d[0] != "discr":
            continue
        variants = dict((v, n) for v, n in d[2].get("variants", []))
        names = set(variants.values())
        if names == {"Ok", "Err"}:
            errname = "Err"
        elif names == {"Continue", "Break"}:
            errname = "Break"
        else:
            continue
        sl = fl.slice_place(d[1], stop=stop)
        roots = {r[1] for r in sl.roots if r[0] == "call" and stop(c.term(r[1]))}
        if nb not in roots:
            continue
        # is it the listing item (not some later Result)?  require that no other opaque call root feeds it
        other = {r for r in sl.roots if r[0] in ("call", "callnode") and r[1] != nb}
        if other:
            continue
        found += 1
        # Err edge(s)
        err_targets = []
        for (j, lab) in c.succ[s]:
            if lab == "otherwise":
                listed = {variants.get(v) for v, _b in t["targets"]}
                if errname not in listed:
                    err_targets.append(j)
            elif variants.get(lab) == errname:
                err_targets.append(j)
        bad = None
        for j in err_targets:
            region = c.reachable(j)
            if nb in region:
                bad = "after an Err from the listing the loop continues (the error is swallowed)"
                break
            has_err_ret = False
            for x in region:
                for st in c.blocks[x]["s"]:
                    if st["k"] == "assign" and st["l"]["l"] == 0 and not st["l"]["p"]:
                        r = st["r"]
                        if r["k"] == "agg" and r.get("ak") == "adt" and r["adt"].endswith("result::Result"):
                            if r["variant"] == "Ok":
                                bad = "an Err from the listing can end in `return Ok(..)`"
                            else:
                                has_err_ret = True
                tt = c.term(x)
                if tt and tt["k"] == "call" and tt["dest"]["l"] == 0 and any(n.endswith("FromResidual::from_residual") for n in call_names(tt)):
                    has_err_ret = True
            if bad:
                break
            if not has_err_ret:
                bad = "no `return Err` on the Err arm of the listing"
        if not err_targets:
            bad = "the Err variant of the listing item is not distinguished"
        if bad:
            R.violation("ED", subj, "listing-error@%s" % _ordinal(c, nb), "listing error not propagated: " + bad, where(body, nb))
        else:
            R.ok("ED", "Err of listing item -> return Err", where(body, s))
    if not found:
        # the item is never examined as a Result: e.g. `.ok()` / `if let Ok(..)` with else ignored
        R.violation("ED", subj, "listing-error@%s" % _ordinal(c, nb), "the Result yielded by the listing iterator is never tested for Err", where(body, nb))


def _ordinal(c, nb):
    alln = [i for i, t in c.calls() if ITER_NEXT in call_names(t)]
    return "next#%d" % (alln.index(nb) + 1)


# ---------------------------------------------------------------------------------------
# cleanup: G1-G3, O1

def cleanup_fn(F):
    """role: the inherent fn reachable from the cloud add_version that calls Service::del
    inside a loop"""
    im, b = cloud_add_version(F)
    if b is None:
        return None
    seen = F.reachable_from([b["path"]])
    best = None
    for p in seen:
        body = F.bodies[p]
        c = cfg_of(body)
        dels = calls_matching(c, re.escape(SERVICE) + "::del$")
        loops = c.loops()
        inloop = [i for i, t in dels if any(i in l for l in loops.values())]
        if inloop:
            if best is None or len(inloop) > best[1]:
                best = (body, len(inloop))
    return best[0] if best else None


COLL = re.compile(r"std::collections::|std::vec::Vec<")


def rule_cleanup(F, R, which=("G1", "G2", "G3", "G4", "O1")):
    b = cleanup_fn(F)
    if b is None:
        R.missing("G", "the function reachable from the object-store add_version that deletes objects in a loop (cleanup)")
        return
    c = cfg_of(b)
    fl = flow_of(b)
    subj = b["owner_fn"]
    im, avb = cloud_add_version(F)
    names, _cas = latest_names(F, avb)
    reader_fns, _ = readers_of(F, names)
    rn = {_norm(x) for x in reader_fns}

    def is_reader(t):
        return any(_norm(n) in rn for n in call_names(t))

    # a listing may be delegated to a helper of the object-store server that calls Service::list itself
    helper_prefix = {}
    for hp, hb0 in F.bodies.items():
        if "cloud::server" not in hp or hb0["kind"] not in ("Fn", "AssocFn") or hp == subj:
            continue
        hb = F.real_body(hp) or hb0
        if hb is b:
            continue
        hc = cfg_of(hb)
        hl = calls_matching(hc, re.escape(SERVICE) + "::list$")
        if hl:
            hfl = flow_of(hb)
            helper_prefix[_norm(hp)] = sorted({x for (_i, t_) in hl for x in const_strs(hfl.slice_operand(t_["args"][1]), F)})

    def is_list(t):
        return (SERVICE + "::list") in call_names(t) or any(_norm(n) in helper_prefix for n in call_names(t))

    stop = lambda t: is_reader(t) or is_list(t)
    dels = calls_matching(c, re.escape(SERVICE) + "::del$")
    lists = [(i, t) for i, t in c.calls() if is_list(t)]
    reads = [(i, t) for i, t in c.calls() if is_reader(t)]
    R.floor("G", "Service::del sites in cleanup", len(dels), 3)
    R.floor("G", "Service::list sites in cleanup", len(lists), 2)
    R.floor("G", "reads of the chain head in cleanup", len(reads), 1)
    if not dels or not lists or not reads:
        return

    def list_prefix(i):
        t = c.term(i)
        for n in call_names(t):
            if _norm(n) in helper_prefix:
                return helper_prefix[_norm(n)]
        return sorted(const_strs(fl.slice_operand(t["args"][1]), F))

    # classify each del by the roots of its name argument and of its guards
    info = []
    for di, dt in dels:
        ns = fl.slice_operand(dt["args"][1], stop=stop)
        nl = {r[1] for r in ns.roots if r[0] == "call" and is_list(c.term(r[1]))}
        nr = {r[1] for r in ns.roots if r[0] == "call" and is_reader(c.term(r[1]))}
        guards = []
        for (s, labs) in guards_of(c, di):
            t = c.term(s)
            if is_plumbing(t):
                continue
            gs = fl.slice_operand(t["o"], stop=stop)
            gl = {r[1] for r in gs.roots if r[0] == "call" and is_list(c.term(r[1]))}
            gr = {r[1] for r in gs.roots if r[0] == "call" and is_reader(c.term(r[1]))}
            # does the guard consult a collection that itself derives from the head read?
            via = False
            for l in gs.locals:
                if COLL.search(fl.local_ty(l)):
                    cs = fl.slice_local(l, stop=stop)
                    if any(r[0] == "call" and is_reader(c.term(r[1])) for r in cs.roots):
                        via = True
            guards.append({"s": s, "labels": labs, "lists": gl, "reads": gr, "via_collection": via, "slice": gs})
        # a predicate of a filter through which the deleted name passed guards the deletion as well
        for (pb, pop) in sorted(ns.predicates.items()):
            gs = fl.slice_operand(pop, stop=stop)
            gl = {r[1] for r in gs.roots if r[0] == "call" and is_list(c.term(r[1]))}
            gr = {r[1] for r in gs.roots if r[0] == "call" and is_reader(c.term(r[1]))}
            via = False
            for l in gs.locals:
                if COLL.search(fl.local_ty(l)):
                    cs = fl.slice_local(l, stop=stop)
                    if any(r[0] == "call" and is_reader(c.term(r[1])) for r in cs.roots):
                        via = True
            guards.append({"s": pb, "labels": [], "lists": gl, "reads": gr, "via_collection": via, "slice": gs, "predicate": True})
        info.append({"bb": di, "t": dt, "name_lists": nl, "name_reads": nr, "guards": guards, "name_slice": ns})

    # ---- O1 ---------------------------------------------------------------------------
    if "O1" in which:
        R.begin("O1", "a listed version object is deleted as off-chain only on positive evidence (a membership test that succeeded in a structure built from the chain head); deciding it from its *absence* from a chain computed out of a listing and a head read that are two separate requests is unsafe in either order of the two requests")
        for d in info:
            if d["name_reads"] or not _is_version_listing_del(d, c, fl, F):
                continue  # the age-based pass walks the chain itself
            positive = False
            for g in d["guards"]:
                if not g["via_collection"] or g.get("predicate"):
                    continue
                t = c.term(g["s"])
                # positive: the del is on the Some-edge of an Option from a lookup, or on the true edge of contains/contains_key
                p_ = op_place(t["o"])
                dd = local_def(fl, p_["l"]) if p_ else None
                if dd and dd[0] == "discr":
                    names = {v: n for v, n in dd[2].get("variants", [])}
                    if set(names.values()) == {"None", "Some"} and all(names.get(l) == "Some" for l in g["labels"] if l != "otherwise") and g["labels"] and "otherwise" not in g["labels"]:
                        positive = True
                bo = bool_origin(fl, t["o"])
                if bo and any(re.search(r"::(contains|contains_key)$", n) for n in call_names(bo[1])):
                    te = switch_true_edges(c, g["s"], bo[2])
                    if all(l in [e[2] for e in te] for l in g["labels"]):
                        positive = True
            ls = sorted(set(d["name_lists"]) | {l for g in d["guards"] for l in g["lists"]})
            rs = sorted({r for g in d["guards"] for r in g["reads"]})
            order = "unordered"
            vl = [l for l in ls if any(p.startswith("v") for p in list_prefix(l))]
            if vl and rs:
                if c.dominates(vl[0], rs[0]):
                    order = "list(v-)≺get_latest"
                elif c.dominates(rs[0], vl[0]):
                    order = "get_latest≺list(v-)"
            if positive:
                R.ok("O1", "off-chain deletion requires a positive chain-membership outcome", where(b, d["bb"]))
            else:
                hist = {
                    "list(v-)≺get_latest": "a version accepted by another client between the listing and the head read is missing from the listing, the chain walk from the head finds nothing, and every listed version is deleted",
                    "get_latest≺list(v-)": "two versions committed by other clients between the head read and the listing are listed but lie beyond the stale head; the newer one is neither on the walked chain nor a child of the stale head and is deleted although it is the live head",
                    "unordered": "the head read and the listing are not ordered",
                }[order]
                R.violation("O1", subj, "absence-based-deletion:%s" % order,
                            "version objects are deleted because they are *absent* from a chain computed from list(\"v-\") (%s) and a separate read of the head (%s): %s"
                            % (loc(c.term(vl[0])["sp"]) if vl else "?", loc(c.term(rs[0])["sp"]) if rs else "?", hist), where(b, d["bb"]))

    # identify the three passes by role
    offchain = [d for d in info if d["name_lists"] and not _name_via_head_chain(d, fl, c, is_reader)]
    # ---- G1 ---------------------------------------------------------------------------
    if "G1" in which:
        R.begin("G1", "every deletion of a listed version object is guarded both by a chain-membership test and by a test that its parent is not the head")
        cand = [d for d in info if _is_version_listing_del(d, c, fl, F)]
        n = 0
        for d in cand:
            hg = [g for g in d["guards"] if g["reads"]]
            direct = [g for g in hg if not g["via_collection"]]
            via = [g for g in hg if g["via_collection"]]
            # the age-based pass is recognised by walking the chain map only (no direct head guard needed): it is G3's
            if _is_age_pass(d):
                continue
            n += 1
            if not via:
                R.violation("G1", subj, "offchain-del-without-chain-test", "a version object is deleted without testing that it is off the chain walked from the head", where(b, d["bb"]))
            elif not direct:
                R.violation("G1", subj, "offchain-del-without-parent-is-head-test", "a version object is deleted without testing that its parent is not the head (an uploaded but not yet committed version must survive)", where(b, d["bb"]))
            else:
                R.ok("G1", "off-chain del guarded by chain test + parent!=head", where(b, d["bb"]))
        R.floor("G1", "off-chain deletion sites", n, 1)

    # ---- G2 ---------------------------------------------------------------------------
    if "G2" in which:
        R.begin("G2", "a snapshot is deleted only if it differs from the newest snapshot on the chain; without such a snapshot nothing further is deleted")
        snapdels = [d for d in info if _is_snapshot_del(d, c, fl, F)]
        R.floor("G2", "snapshot deletion sites", len(snapdels), 1)
        for d in snapdels:
            hg = [g for g in d["guards"] if g["reads"] and not is_opt_discr(c, fl, g["s"])]
            if not hg:
                R.violation("G2", subj, "snapshot-del-unguarded", "a snapshot object is deleted without comparing it to the newest snapshot on the chain", where(b, d["bb"]))
            else:
                R.ok("G2", "snapshot del guarded by != latest snapshot", where(b, d["bb"]))
            og = [g for g in d["guards"] if g["reads"] and is_opt_discr(c, fl, g["s"])]
            if not og:
                R.violation("G2", subj, "snapshot-del-without-snapshot-on-chain", "snapshot deletion is not confined to the case that a snapshot exists on the chain", where(b, d["bb"]))
            else:
                R.ok("G2", "snapshot del only when a snapshot is on the chain", where(b, d["bb"]))

    # ---- G3 ---------------------------------------------------------------------------
    if "G3" in which:
        R.begin("G3", "the age-based pass starts at the newest snapshot on the chain, walks the chain, and deletes only versions selected by creation < threshold")
        aged = [d for d in info if _is_age_pass(d) and _is_version_listing_del(d, c, fl, F)]
        R.floor("G3", "age-based deletion sites", len(aged), 1)
        for d in aged:
            # provenance of the loop variable's start value: every origin must be an Option::Some
            # built under a membership test on the snapshot listing (the newest snapshot on the chain)
            origins = _start_origins(c, fl, d)
            bad = None
            good = 0
            if not origins:
                bad = "cannot find where the age pass starts"
            for (kind, obb, what) in origins:
                if kind == "none":
                    continue
                if kind != "some":
                    bad = "the age-based pass starts from %s, not from a version established as the newest snapshot on the chain" % what
                    break
                oks = False
                for (gs_, labs) in guards_of(c, obb):
                    t = c.term(gs_)
                    if is_plumbing(t):
                        continue
                    gsl = fl.slice_operand(t["o"], stop=stop)
                    gl = {r[1] for r in gsl.roots if r[0] == "call" and is_list(c.term(r[1]))}
                    if any(any(p.startswith("s") for p in list_prefix(l)) for l in gl) and "0" not in labs:
                        oks = True
                if oks:
                    good += 1
                else:
                    bad = "the start of the age-based pass is set at %s without a positive membership test in the snapshot listing" % loc(c.term(obb)["sp"])
                    break
            if bad or not good:
                R.violation("G3", subj, "age-pass-not-from-snapshot", (bad or "no snapshot-derived start") + " (versions newer than the retained snapshot could be deleted)", where(b, d["bb"]))
            else:
                R.ok("G3", "age pass starts at a version that passed the snapshot-membership test", where(b, d["bb"]))
            # selection test: a guard whose operand derives from a closure with `Lt(creation, threshold)`
            sel = False
            badsel = None
            for g in d["guards"]:
                roots_ = set(g["slice"].roots)
                # `.filter(|..| creation < threshold).map(..)`: the selection is the filter's predicate
                for (_pb, pop) in sorted(g["slice"].predicates.items()):
                    roots_ |= set(fl.slice_operand(pop, stop=stop).roots)
                for r in sorted(roots_, key=repr):
                    if r[0] == "closure" and r[1] in F.bodies:
                        res = _age_closure_ok(F.bodies[r[1]])
                        if res is True:
                            sel = True
                        elif res is not None:
                            badsel = res
            if badsel:
                R.violation("G3", subj, "age-selection-direction", badsel, where(b, d["bb"]))
            elif not sel:
                R.violation("G3", subj, "age-del-unguarded", "the age-based pass deletes versions without the `creation < threshold` selection", where(b, d["bb"]))
            else:
                R.ok("G3", "age selection is creation < threshold", where(b, d["bb"]))


    # ---- G4 ---------------------------------------------------------------------------
    if "G4" in which:
        R.begin("G4", "order of the two destructive phases: the superseded snapshots are deleted before any version is deleted by age. While an older snapshot is still offered, the versions that lead from it to the head must exist; a cleanup that stops between its deletions (its errors are ignored by add_version) must not leave a snapshot whose successors are gone")
        snapdels = [d for d in info if _is_snapshot_del(d, c, fl, F)]
        aged = [d for d in info if _is_age_pass(d) and _is_version_listing_del(d, c, fl, F)]
        if snapdels and aged:
            bad = [(a, s) for a in aged for s in snapdels if s["bb"] in c.reachable_after(a["bb"])]
            if bad:
                R.violation("G4", subj, "versions-deleted-before-snapshots", "a snapshot deletion (%s) can still follow the age-based deletion of versions (%s): interrupted in between, the older snapshot remains while the versions after it are gone, and a replica started from it never reaches the head" % (loc(c.term(bad[0][1]["bb"])["sp"]), loc(c.term(bad[0][0]["bb"])["sp"])), where(b, bad[0][0]["bb"]))
            else:
                R.ok("G4", "snapshot deletions precede the age-based version deletions", where(b, aged[0]["bb"]))
        else:
            R.missing("G4", "snapshot deletion / age-based deletion sites in cleanup")


def is_opt_discr(c, fl, s):
    t = c.term(s)
    if t["k"] != "switch":
        return False
    p = op_place(t["o"])
    d = local_def(fl, p["l"]) if p else None
    if d and d[0] == "discr":
        names = {n for _v, n in d[2].get("variants", [])}
        return names == {"None", "Some"}
    return False


def _name_via_head_chain(d, fl, c, is_reader):
    return bool(d["name_reads"])


def _is_age_pass(d):
    """the del whose *name* derives from the head read (it walks the chain) rather than
    directly from a listing iteration"""
    return bool(d["name_reads"])


def _callee_consts(F, t):
    """string constants used in the format template of a name-building helper"""
    out = set()
    for n in call_names(t):
        body = F.bodies.get(n) or F.bodies.get(_find_body(F, n) or "")
        if body:
            for bl in body["blocks"]:
                tt = bl["t"]
                if tt and tt["k"] == "call":
                    for a in tt["args"]:
                        if "k" in a:
                            out.add(a["k"].get("repr", ""))
                # the template of a format!() is a byte-string constant assigned in a statement
                for st in bl["s"]:
                    if st["k"] == "assign" and st["r"].get("k") == "use" and "k" in st["r"].get("o", {}):
                        rp = st["r"]["o"]["k"].get("repr", "")
                        if rp.startswith('b"'):
                            out.add(rp)
    return out


def _find_body(F, n):
    nn = _norm(n)
    for p in F.bodies:
        if _norm(p) == nn:
            return p
    return None


def _name_helper_prefix(F, c, d):
    """which object family does the deleted name belong to: look at the helper that builds the
    name (a crate fn whose format template starts with "v-" or "s-")"""
    pref = set()
    for bb, t in d["name_slice"].calls.items():
        for k in _callee_consts(F, t):
            m = re.search(r'^"([vs])-', k) or re.search(r'^b"(?:\\x[0-9a-f]{2})?([vs])-', k)
            if m:
                pref.add(m.group(1))
    return pref


def _is_version_listing_del(d, c, fl, F):
    return "v" in _name_helper_prefix(F, c, d)


def _is_snapshot_del(d, c, fl, F):
    return "s" in _name_helper_prefix(F, c, d)


def _age_closure_ok(cb):
    """closure `|(c, _, creation)| if *creation < age_threshold {Some(*c)} else {None}`:
    True if it contains Lt(param-derived, upvar-derived); message if reversed; None if no comparison"""
    from tc.cfg import Cfg
    from tc.flow import Flow

    c = Cfg(cb)
    fl = Flow(cb, c)
    res = None
    for i in sorted(c.reach):
        for st in c.blocks[i]["s"]:
            if st["k"] == "assign" and st["r"]["k"] == "bin" and st["r"]["op"] in ("Lt", "Le", "Gt", "Ge"):
                a = fl.slice_operand(st["r"]["a"])
                bb = fl.slice_operand(st["r"]["b"])
                a_param = bool(a.params()) and not a.upvars()
                b_up = bool(bb.upvars()) and not bb.params()
                a_up = bool(a.upvars()) and not a.params()
                b_param = bool(bb.params()) and not bb.upvars()
                op = st["r"]["op"]
                if (a_param and b_up and op in ("Lt", "Le")) or (a_up and b_param and op in ("Gt", "Ge")):
                    res = True
                elif (a_param and b_up) or (a_up and b_param):
                    return "the age selection compares creation time and threshold as %s with operands (%s, %s): versions *newer* than the retention age would be selected" % (
                        op, "creation" if a_param else "threshold", "threshold" if b_up else "creation")
    return res


def _start_origins(c, fl, d):
    """origins of the values that seed the loop-carried variable in the name of del `d`:
    [(kind, bb, description)] with kind in some|none|call|param|other.  Follows copies,
    Option payload projections and refs backwards; stops at aggregate constructions / calls."""
    loops = c.loops()
    inl = None
    for h, body in loops.items():
        if d["bb"] in body and (inl is None or len(body) < len(inl)):
            inl = body
    if inl is None:
        return []
    # locals in the name slice that are assigned both inside and outside the loop = loop-carried
    carried = []
    for l in d["name_slice"].locals:
        defs = [x for x in fl.defs.get(l, ()) if x[0] in ("assign", "call") and not x[3]]
        inside = [x for x in defs if x[1] in inl]
        outside = [x for x in defs if x[1] not in inl]
        if inside and outside and fl.local_name(l):
            carried.append((l, outside))
    out = []
    seen = set()

    def walk(o, depth=0):
        p = op_place(o)
        if p is None:
            out.append(("other", None, "a constant"))
            return
        key = (p["l"], tuple(pproj(p)))
        if key in seen or depth > 40:
            return
        seen.add(key)
        proj = [e for e in pproj(p) if e[0] != "deref"]
        ds = [x for x in fl.defs.get(p["l"], ()) if x[0] in ("assign", "call")]
        if 1 <= p["l"] <= fl.argc:
            out.append(("param", None, "a parameter"))
        for x in ds:
            if x[0] == "call":
                t = x[4]
                from tc.flow import transparent
                tr, _ = transparent(t)
                if tr and t["args"]:
                    walk(t["args"][0], depth + 1)
                else:
                    out.append(("call", x[1], "the result of %s at %s" % (t.get("callee"), loc(t["sp"]))))
                continue
            r = x[4]
            if r["k"] in ("use", "cast"):
                walk(r["o"], depth + 1)
            elif r["k"] in ("ref", "copyforderef"):
                walk({"c": r["p"]}, depth + 1)
            elif r["k"] == "agg" and r.get("ak") == "adt" and r["adt"].endswith("option::Option"):
                if r["variant"] == "Some":
                    out.append(("some", x[1], "Some(..)"))
                else:
                    out.append(("none", x[1], "None"))
            else:
                out.append(("other", x[1], "a computed value"))

    for l, outside in carried:
        for x in outside:
            if x[0] == "call":
                t = x[4]
                out.append(("call", x[1], "the result of %s at %s" % (t.get("callee"), loc(t["sp"]))))
                continue
            r = x[4]
            if r["k"] in ("use", "cast"):
                walk(r["o"])
            elif r["k"] in ("ref", "copyforderef"):
                walk({"c": r["p"]})
            else:
                out.append(("other", x[1], "a computed value"))
    return out


# ---------------------------------------------------------------------------------------
# K6: only a committed child is served

def _k6_some_sites(fl, sl):
    """Option<Uuid> locals in the slice that are assigned Some(..): [(local, [(bb, rvalue)])]"""
    opts = []
    for l in sorted(sl.locals):
        if not fl.local_ty(l).startswith("std::option::Option<uuid::Uuid>"):
            continue
        somes = []
        for d in fl.defs.get(l, ()):
            r = d[4] if d[0] == "assign" else None
            for _ in range(6):
                if r is None or r["k"] != "use":
                    break
                p = op_place(r["o"])
                if p is None or p["p"]:
                    break
                ds = [x for x in fl.defs.get(p["l"], ()) if x[0] == "assign" and not x[3]]
                r = ds[0][4] if len(ds) == 1 else None
            if r is not None and r["k"] == "agg" and r.get("adt", "").endswith("option::Option") and r["variant"] == "Some":
                somes.append((d[1], r))
        if somes:
            opts.append((l, somes))
    return opts


def rule_K6(F, R):
    R.begin("K6", "get_child_version serves a candidate only on positive evidence that it is on the chain: it equals the head, or it has children of its own (a leftover of a lost race has neither)")
    im, avb = cloud_add_version(F)
    if im is None:
        R.missing("K6", "object-store Server impl")
        return
    b = None
    for it in im["items"]:
        if it["name"] == "get_child_version":
            b = F.real_body(it["path"])
    if b is None:
        R.missing("K6", "object-store get_child_version")
        return
    c = cfg_of(b)
    fl = flow_of(b)
    subj = b["owner_fn"]
    names, _cas = latest_names(F, avb)
    reader_fns, _ = readers_of(F, names)
    rn = {_norm(x) for x in reader_fns}
    is_reader = lambda t: any(_norm(n) in rn for n in call_names(t))
    import roles
    chf = roles.cloud_children_fn(F)
    if chf is None:
        R.missing("K6", "the object-store helper that lists candidate children (Service::list -> Vec<Uuid>)")
        return
    is_children = lambda t: any(roles.norm(n) == roles.norm(chf) for n in call_names(t))
    stop = lambda t: is_reader(t) or is_children(t)
    sites = agg_sites(c, "GetVersionResult", "Version")
    if not sites:
        R.missing("K6", "GetVersionResult::Version construction in the object-store get_child_version")
        return
    # the Option local(s) from which the served id is taken
    st = sites[0][2]
    op = st["r"]["ops"][st["r"]["fields"].index("version_id")]
    sl = fl.slice_operand(op, stop=stop)
    # (body, in_helper, [(local, somes)]): the selection may live in get_child_version itself or in a crate-local
    # helper that returns the chosen Option<Uuid> (found through the value served, not by name)
    work = []
    opts = _k6_some_sites(fl, sl)
    if opts:
        work.append((b, False, opts))
    else:
        seen = set()
        for (_bb, t) in sorted(sl.calls.items()):
            hb = roles.callee_body(F, t)
            if hb is None or hb["path"] in seen or is_reader(t) or is_children(t):
                continue
            seen.add(hb["path"])
            hb = F.real_body(F.owner(hb["path"])) or hb
            if "Option<uuid::Uuid>" not in (F.bodies.get(F.owner(hb["path"]), {}).get("sig_out") or fl.local_ty(0)) and "Option<uuid::Uuid>" not in flow_of(hb).local_ty(0):
                continue
            hfl = flow_of(hb)
            hopts = _k6_some_sites(hfl, hfl.slice_local(0, stop=stop))
            if hopts:
                work.append((hb, True, hopts))
    if not work:
        R.missing("K6", "the candidate-selection variable (an Option<Uuid> assigned Some(candidate))")
        return

    def closure_head_test(ob, ofl, pop):
        """the predicate closure compares its item with a captured value that derives from the head read"""
        ps = ofl.slice_operand(pop, stop=stop)
        for r_ in ps.roots:
            if r_[0] != "closure" or r_[1] not in F.bodies:
                continue
            cb = F.bodies[r_[1]]
            cfl = flow_of(cb)
            bo = bool_origin(cfl, {"c": {"l": 0, "p": []}})
            if not bo or bo[2]:
                continue
            if not any(re.search(r"PartialEq::eq$", x) for x in call_names(bo[1])):
                continue
            a0 = cfl.slice_operand(bo[1]["args"][0])
            a1 = cfl.slice_operand(bo[1]["args"][1])
            for x, y in ((a0, a1), (a1, a0)):
                if not x.upvars() or not y.params():
                    continue
                for nm_ in x.upvars():
                    for l_ in range(len(ob["locals"])):
                        if ofl.local_name(l_) == nm_:
                            hs = ofl.slice_local(l_, stop=stop)
                            if any(q[0] == "call" and is_reader(cfg_of(ob).term(q[1])) for q in hs.roots):
                                return True
        return False

    n = 0
    for (wb, in_helper, wopts) in work:
        wc = cfg_of(wb)
        wfl = flow_of(wb)

        def cand_ok(y):
            if "parent_version_id" in y.upvars():
                return False
            if any(r_[0] == "call" and is_children(wc.term(r_[1])) for r_ in y.roots):
                return True
            # inside a helper the candidates arrive as a parameter
            return in_helper and any(u != "self" for u in (y.upvars() | {str(p_) for p_ in y.params()}))

        for (l, somes) in wopts:
            for (bb, r) in somes:
                n += 1
                evidence = None
                for (s, labs) in guards_of(wc, bb):
                    t = wc.term(s)
                    if is_plumbing(t):
                        continue
                    bo = bool_origin(wfl, t["o"])
                    if not bo:
                        continue
                    nm = call_names(bo[1])
                    te = switch_true_edges(wc, s, bo[2])
                    on_true = all(lab in [e[2] for e in te] for lab in labs)
                    if any(re.search(r"PartialEq::(eq|ne)$", x) for x in nm):
                        isne = any(x.endswith("::ne") for x in nm)
                        equal_side = on_true != isne
                        a0 = wfl.slice_operand(bo[1]["args"][0], stop=stop)
                        a1 = wfl.slice_operand(bo[1]["args"][1], stop=stop)
                        for x, y in ((a0, a1), (a1, a0)):
                            head = any(r_[0] == "call" and is_reader(wc.term(r_[1])) for r_ in x.roots)
                            if head and cand_ok(y) and equal_side:
                                evidence = "equals the head"
                    if any(x.endswith("::is_empty") for x in nm) and not on_true:
                        a0 = wfl.slice_operand(bo[1]["args"][0], stop=stop)
                        if any(r_[0] == "call" and is_children(wc.term(r_[1])) for r_ in a0.roots):
                            # the listing must be of the candidate's children, not of the requested parent's
                            ch = [wc.term(r_[1]) for r_ in a0.roots if r_[0] == "call" and is_children(wc.term(r_[1]))]
                            argsl = wfl.slice_operand(ch[0]["args"][1], stop=stop)
                            if "parent_version_id" not in argsl.upvars():
                                evidence = "has children"
                if not evidence and r.get("ops"):
                    # the candidate was picked by `find(|c| .. == head)`: the predicate is the evidence
                    vs = wfl.slice_operand(r["ops"][0], stop=stop)
                    for (pb, pop) in sorted(vs.predicates.items()):
                        if any(x.endswith("Iterator::find") for x in call_names(wc.term(pb))) and closure_head_test(wb, wfl, pop) and cand_ok(wfl.slice_operand(wc.term(pb)["args"][0], stop=stop)):
                            evidence = "equals the head (find predicate)"
                if evidence:
                    R.ok("K6", "candidate accepted because it %s" % evidence, where(wb, bb))
                else:
                    R.violation("K6", subj, "candidate-served-without-evidence", "a candidate child is selected at %s without having been found equal to the head or to have children: a version object left by a writer that lost (or has not finished) the race can be served as a version" % loc(_bbsp2(wb, bb)), where(wb, bb))
    R.floor("K6", "candidate selections examined", n, 2)


def _bbsp2(b, bb):
    t = b["blocks"][bb]["t"]
    return t["sp"] if t else b["sp"]


# ---------------------------------------------------------------------------------------
# Round 7: where cleanup may run, what add_version may delete, who may delete at all

def rule_K8(F, R):
    R.begin("K8", "the object-store add_version runs cleanup only after it has won the swap: cleanup judges an uploaded-but-unswapped version by `parent != latest`, which is true of every object while no head exists (or before this call has validated it) - a cleanup at any other point of add_version deletes the version a concurrent first sync has uploaded and is about to make the head")
    im, b = cloud_add_version(F)
    cf = cleanup_fn(F)
    if b is None or cf is None:
        R.missing("K8", "object-store add_version / cleanup")
        return
    c = cfg_of(b)
    fl = flow_of(b)
    subj = b["owner_fn"]
    names, cas = latest_names(F, b)
    if len(cas) != 1:
        R.missing("K8", "exactly one compare_and_swap in add_version")
        return
    cas_bb = cas[0][0]
    target = cf["owner_fn"]
    sites = []
    for (i, t) in c.calls():
        for n in call_names(t):
            p = _find_body(F, n)
            if p and (F.owner(p) == target or target in F.reachable_from([p])) and F.owner(p) != subj:
                sites.append((i, t))
                break
    if not sites:
        R.info("K8", "add_version does not reach cleanup")
        R.ok("K8", "no cleanup reachable from add_version", where(b))
        return
    true_edges = []
    for s in sorted(c.reach):
        t = c.term(s)
        if not t or t["k"] != "switch":
            continue
        bo = bool_origin(fl, t["o"])
        if bo and bo[0] == cas_bb:
            true_edges += switch_true_edges(c, s, bo[2])
    for (i, t) in sites:
        if not true_edges:
            R.violation("K8", subj, "cleanup-without-swap-test", "cleanup is reached from add_version although the outcome of the compare_and_swap is never tested", where(b, i))
            continue
        r = c.reachable(0, removed_edges=[(e[0], e[1]) if len(e) > 2 else e for e in true_edges]) if False else None
        # the call must be unreachable once the swap's true edges are cut
        cut = [(e[0], e[1]) for e in true_edges]
        reach = c.reachable(0, removed_edges=cut)
        if i in reach:
            R.violation("K8", subj, "cleanup-not-after-won-swap", "cleanup can run at %s without this call having won the compare_and_swap (before the head was read and validated, or after losing): every version object whose parent is not the head it sees - with no head, every object - is deleted, including one a concurrent writer is about to make the head" % loc(t["sp"]), where(b, i))
        else:
            R.ok("K8", "cleanup only on the swap==true side", where(b, i))


def rule_K9(F, R):
    R.begin("K9", "add_version deletes nothing but the object this very call uploaded: the name passed to Service::del derives from the same fresh id as the name passed to Service::put. Deleting other children of the parent (`abandoned attempts`) removes the accepted version once the chain has grown past it")
    im, b = cloud_add_version(F)
    if b is None:
        R.missing("K9", "object-store add_version")
        return
    c = cfg_of(b)
    fl = flow_of(b)
    subj = b["owner_fn"]
    dels = calls_matching(c, re.escape(SERVICE) + "::del$")
    puts = calls_matching(c, re.escape(SERVICE) + "::put$")
    if not puts:
        R.missing("K9", "Service::put in add_version")
        return
    fresh = lambda s_: {r_ for r_ in s_.roots if r_[0] in ("call", "callnode") and str(r_[2]).endswith("::new_v4")}
    pf = set()
    for (_i, t) in puts:
        pf |= fresh(fl.slice_operand(t["args"][1]))
    for (i, t) in dels:
        ds = fl.slice_operand(t["args"][1])
        listing = [n for n in ds.call_names() if n.endswith("Service::list") or re.search(r"get_child_versions$", n)]
        if not (fresh(ds) & pf) or listing:
            R.violation("K9", subj, "deletes-other-objects", "Service::del at %s names an object that is not (only) the one this call uploaded%s" % (loc(t["sp"]), " (it comes out of a listing)" if listing else ""), where(b, i))
        else:
            R.ok("K9", "del names the object uploaded by this call", where(b, i))
    if not dels:
        R.ok("K9", "add_version deletes nothing", where(b))


def rule_G56(F, R):
    R.begin("G5", "cleanup reads the chain head once: the chain walked and every exemption (`this object's parent is the head: it may be an upload in flight`) are judged against the same value. With a second, fresher read the exemption is tested against a head whose own object was listed as off the (older) chain - the new head is deleted")
    b = cleanup_fn(F)
    if b is None:
        R.missing("G5", "cleanup")
        return
    c = cfg_of(b)
    im, avb = cloud_add_version(F)
    names, _cas = latest_names(F, avb)
    reader_fns, _ = readers_of(F, names)
    rn = {_norm(x) for x in reader_fns}
    reads = [(i, t) for i, t in c.calls() if any(_norm(n) in rn for n in call_names(t))]
    loops = c.loops()
    if len(reads) == 1 and not any(reads[0][0] in lb for lb in loops.values()):
        R.ok("G5", "one read of the head in cleanup", where(b, reads[0][0]))
    elif not reads:
        R.missing("G5", "a read of the chain head in cleanup")
    else:
        R.violation("G5", b["owner_fn"], "head-read-twice", "cleanup reads the chain head %s: decisions taken against different values of the head delete objects that are on the chain as seen by the later one" % ("in a loop" if len(reads) == 1 else "%d times" % len(reads)), where(b, reads[-1][0]))
    R.begin("G6", "only cleanup (and add_version, for its own lost upload) deletes objects: any other deletion is decided without the chain walk that tells a needed snapshot or version from a superseded one")
    subj_ok = {b["owner_fn"], (avb or {}).get("owner_fn")}
    n = 0
    for (bp, bb) in sorted(F.callsites.get(SERVICE + "::del", [])):
        body = F.bodies[bp]
        if body["blocks"][bb]["cleanup"] or "cloud::server" not in bp:
            continue
        n += 1
        own = F.owner(bp)
        if own in subj_ok or _norm(own) in {_norm(x) for x in subj_ok if x}:
            R.ok("G6", "del in %s" % own.split("::")[-1], where(body, bb))
        else:
            # a helper called only from cleanup / add_version is fine
            callers = {F.owner(q) for q, cs in F.calls_in.items() for (_i, t) in cs if any(_norm(x) == _norm(own) for x in call_names(t))}
            if callers and all(_norm(q) in {_norm(x) for x in subj_ok if x} for q in callers):
                R.ok("G6", "del in %s (helper of cleanup / add_version)" % own.split("::")[-1], where(body, bb))
            else:
                R.violation("G6", own, "deletion-outside-cleanup", "%s deletes objects itself (Service::del at %s): superseded objects are told from needed ones only by cleanup's walk from the head" % (own.split("::")[-1], loc(body["blocks"][bb]["t"]["sp"])), where(body, bb))
    R.floor("G6", "Service::del sites in the object-store server", n, 3)
