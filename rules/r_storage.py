"""Storage-layer rules: Q1-Q3, N3 (C16, C12), D2-D5 (C06, C17)."""
import re

from tc.facts import call_names, loc
from tc.flow import op_place
from tc.sym import SymExec, show, show_atom, show_path
from tc.util import bool_origin, calls_matching, cfg_of, const_strs, flow_of, guards_of, is_plumbing, local_def, switch_true_edges, where

TXN = "storage::StorageTxn"
WTXN = "storage::send_wrapper::traits::WrappedStorageTxn"
MSG = "storage::send_wrapper::actor::TxnMessage"


def snake(name):
    return re.sub(r"(?<!^)([A-Z])", r"_\1", name).lower()


def _has(v, pred, depth=0):
    if depth > 40:
        return False
    try:
        if pred(v):
            return True
    except (IndexError, TypeError):
        pass
    if isinstance(v, tuple):
        return any(_has(x, pred, depth + 1) for x in v if isinstance(x, tuple))
    return False


def trait_methods(F, tr):
    t = F.traits.get(tr)
    return [m["name"] for m in t["methods"]] if t else []


def _is_reply_helper(F, e):
    """a private helper of the send wrapper `fn reply(resp, value)` whose body sends its second parameter on its first"""
    cache = F.__dict__.setdefault("_reply_helper_memo", {})
    key = e["callee"]
    if key in cache:
        return cache[key]
    ok = False
    hb = F.bodies.get(e["callee"]) or F.bodies.get(re.sub(r"::<[^>]*>", "", e["callee"]))
    if hb is not None and "send_wrapper" in hb["path"] and hb["kind"] in ("Fn", "AssocFn") and hb["argc"] == 2 and len(e["args"]) == 2:
        try:
            hp = [q for q in SymExec(hb, cfg_of(hb), max_paths=200).run() if q.end[0] == "return"]
            n0 = hb["locals"][1].get("name")
            n1 = hb["locals"][2].get("name")
            ok = bool(hp) and all(
                len([x for x in q.events if x["callee"].endswith("Sender::<T>::send")]) == 1
                and [x for x in q.events if x["callee"].endswith("Sender::<T>::send")][0]["args"][0] == ("P", n0)
                and [x for x in q.events if x["callee"].endswith("Sender::<T>::send")][0]["args"][1] == ("P", n1)
                for q in hp)
        except Exception:
            ok = False
    cache[key] = ok
    return ok


def rule_Q1(F, R):
    R.begin("Q1", "proxy and actor tables agree: each StorageTxn method of the proxy builds the TxnMessage variant of the same name from its own parameters, and the actor's arm for each variant calls the WrappedStorageTxn method of the same name with the variant's fields in order and replies with that call's result")
    methods = trait_methods(F, TXN)
    adt = F.adts.get(MSG)
    if not methods or adt is None:
        R.missing("Q1", "trait storage::StorageTxn / enum TxnMessage")
        return
    variants = {v["name"]: v for v in adt["variants"]}
    R.floor("Q1", "StorageTxn trait methods", len(methods), 21)
    R.floor("Q1", "TxnMessage variants", len(variants), 22)
    # ---- proxy side
    proxy_impl = None
    for im in F.impls_of_trait.get(TXN, []):
        if "send_wrapper" in im["self"] or "WrapperTxn" in im["self"]:
            proxy_impl = im
    if proxy_impl is None:
        R.missing("Q1", "the impl of StorageTxn for the send_wrapper proxy")
        return
    n = 0
    for it in proxy_impl["items"]:
        if not it.get("fn"):
            continue
        m = it["name"]
        b = F.real_body(it["path"])
        if b is None:
            continue
        c = cfg_of(b)
        try:
            paths = SymExec(b, c).run()
        except Exception as e:
            R.violation("Q1", it["path"], "proxy-table", "cannot extract: %s" % e, where(b))
            continue
        sent = set()
        for p in paths:
            for e in p.events:
                if len(e["args"]) >= 2 and any("send_wrapper::wrapper" in nm for nm in e["names"]):
                    f = e["args"][1]
                    if f[0] == "K" and str(f[1]).startswith("fn:" + MSG + "::"):
                        sent.add((str(f[1]).split("::")[-1], None))
                    elif f[0] == "Cl":
                        cb = F.bodies.get(f[1])
                        if cb is not None:
                            for q in SymExec(cb, cfg_of(cb)).run():
                                if q.ret and q.ret[0] == "A" and q.ret[1] == MSG:
                                    fields = [x for (_k, x) in q.ret[3]]
                                    sent.add((q.ret[2], tuple(fields)))
        want = "".join(w.capitalize() for w in m.split("_"))
        if not sent:
            # default trait bodies (is_empty may be forwarded or defaulted) are fine when they only call other trait methods
            if m == "is_empty":
                continue
            R.violation("Q1", it["path"], "proxy-sends-nothing", "the proxy's %s sends no message to the actor" % m, where(b))
            continue
        n += 1
        names = {v for (v, _f) in sent}
        if names != {want}:
            R.violation("Q1", it["path"], "proxy-crossed-wire", "the proxy's %s sends TxnMessage::%s instead of TxnMessage::%s" % (m, sorted(names), want), where(b))
            continue
        # parameters forwarded in order: fields (except the reply sender) are the method's own captured parameters
        for (v, fields) in sent:
            if fields is None:
                continue
            caps = [x for x in fields[:-1]]
            if not all(x[0] == "P" for x in caps):
                R.violation("Q1", it["path"], "proxy-args", "TxnMessage::%s is not built from the method's own parameters: %s" % (v, [show(x) for x in caps]), where(b))
                break
        else:
            R.ok("Q1", "proxy %s -> TxnMessage::%s" % (m, want), where(b))
    R.floor("Q1", "proxy methods that send a message", n, 21)
    # ---- actor side
    ab = None
    for (bp, bb) in F.callsites.get(WTXN + "::set_task", []):
        if "actor" in bp:
            ab = F.bodies[bp]
    if ab is None:
        R.missing("Q1", "the actor function that dispatches TxnMessage to WrappedStorageTxn")
        return
    c = cfg_of(ab)
    loops = c.loops()
    if len(loops) != 1:
        R.missing("Q1", "exactly one message loop in the actor's transaction handler", "found %d" % len(loops))
        return
    h = list(loops)[0]
    try:
        paths = SymExec(ab, c, region=c.dominated_by(h), entry=h).run()
    except Exception as e:
        R.violation("Q1", ab["owner_fn"], "actor-table", "cannot extract: %s" % e, where(ab))
        return
    seen = {}
    for p in paths:
        var = None
        msg = None
        for (a, o, _bb) in p.atoms:
            if a[0] == "variant" and a[1][0] == "F" and a[1][1][0] == "C" and a[1][1][2].endswith("::recv"):
                var = o
                msg = a[1]
        if var is None or not isinstance(var, str) or var not in variants:
            continue
        calls = [e for e in p.events if any(nm.startswith(WTXN + "::") for nm in e["names"])]
        sends = [e for e in p.events if any(nm.endswith("Sender::<T>::send") for nm in e["names"]) or _is_reply_helper(F, e)]
        seen[var] = (p, calls, sends)
        w = where(ab, p.blocks[-1])
        if var == "Rollback":
            if calls or sends or p.end[0] != "return":
                R.violation("Q1", ab["owner_fn"], "actor-arm:Rollback", "the Rollback arm must end the transaction without calling the storage (got %s)" % [e["callee"].split("::")[-1] for e in calls], w)
            else:
                R.ok("Q1", "actor Rollback -> return without commit", w)
            continue
        want = snake(var)
        nfields = len(variants[var]["fields"])
        if len(calls) != 1 or calls[0]["callee"].split("::")[-1] != want:
            R.violation("Q1", ab["owner_fn"], "actor-arm:%s" % var, "the actor's arm for TxnMessage::%s calls %s instead of %s" % (var, [e["callee"].split("::")[-1] for e in calls], want), w)
            continue
        e = calls[0]
        exp_args = tuple(("F", msg, var, i) for i in range(nfields - 1))
        if tuple(e["args"][1:]) != exp_args:
            R.violation("Q1", ab["owner_fn"], "actor-args:%s" % var, "the actor's arm for TxnMessage::%s passes %s" % (var, [show(a) for a in e["args"][1:]]), w)
            continue
        if len(sends) != 1 or sends[0]["args"][0] != ("F", msg, var, nfields - 1) or not _has(sends[0]["args"][1], lambda v: v[0] == "C" and v[1] == e["id"]):
            R.violation("Q1", ab["owner_fn"], "actor-reply:%s" % var, "the actor's arm for TxnMessage::%s does not reply with the result of %s on the message's own reply channel" % (var, want), w)
            continue
        if var == "Commit" and p.end[0] != "return":
            R.violation("Q1", ab["owner_fn"], "actor-commit-continues", "after Commit the actor keeps serving the same transaction", w)
            continue
        R.ok("Q1", "actor %s -> %s(fields) -> reply" % (var, want), w)
    for v in variants:
        if v not in seen:
            R.violation("Q1", ab["owner_fn"], "actor-arm-missing:%s" % v, "the actor has no arm for TxnMessage::%s" % v, where(ab))
    R.extra["exhaustive"] = True


def sqlite_txn_impl(F):
    for im in F.impls_of_trait.get(WTXN, []):
        if "sqlite" in im["self"]:
            return im
    return None


WRITE_SQL = re.compile(r"^\s*(INSERT|UPDATE|DELETE|REPLACE|CREATE|DROP|ALTER)\b", re.I)


def rule_Q2(F, R):
    R.begin("Q2", "read-only refusal: in the SQLite transaction every statement that modifies the database, and commit, is dominated by check_write_access; the schema upgrade runs only on the read-write branch")
    im = sqlite_txn_impl(F)
    if im is None:
        R.missing("Q2", "impl WrappedStorageTxn for the SQLite transaction")
        return
    nw = 0
    for it in im["items"]:
        if not it.get("fn"):
            continue
        b = F.real_body(it["path"])
        if b is None:
            continue
        c = cfg_of(b)
        fl = flow_of(b)
        import roles
        acf = roles.access_check_fn(F)
        guards = [i for i, t in c.calls() if acf and any(roles.norm(n) == roles.norm(acf) for n in call_names(t))]
        writes = []
        for i, t in c.calls():
            if is_plumbing(t):
                continue
            for a in t["args"]:
                for sv in const_strs(fl.slice_operand(a, through_all_calls=False), F):
                    if sv and WRITE_SQL.search(sv):
                        writes.append((i, sv))
            if any(n.endswith("rusqlite::Transaction::<'_>::commit") or n.endswith("Transaction::<'conn>::commit") for n in call_names(t)):
                writes.append((i, "COMMIT"))
        # helper functions called with SQL (e.g. get_next_working_set_number) are read-only by name; writes through helpers: follow one level
        if it["name"] == "commit" and not any(sv == "COMMIT" for _i, sv in writes):
            for i, t in c.calls():
                if any(n.endswith("::commit") and "rusqlite" in n for n in call_names(t)):
                    writes.append((i, "COMMIT"))
        if not writes:
            continue
        nw += 1
        bad = [(i, sv) for (i, sv) in writes if not any(c.dominates(g, i) and g != i for g in guards)]
        if bad:
            R.violation("Q2", it["path"], "write-without-access-check", "%s executes `%s` without a dominating check_write_access: a store opened read-only would be modified" % (it["name"], bad[0][1][:50]), where(b, bad[0][0]))
        else:
            # the guard's error is propagated: the Err edge of check_write_access must not reach the write
            R.ok("Q2", "%s: %d modifying statement(s) dominated by check_write_access" % (it["name"], len(writes)), where(b, guards[0]))
    R.floor("Q2", "SQLite transaction methods that modify the database", nw, 11)
    # schema upgrade only when read-write
    for (bp, bb) in F.callsites.get("storage::sqlite::schema::upgrade_db", []):
        b = F.bodies[bp]
        if b["blocks"][bb]["cleanup"] or "schema" in bp:
            continue
        c = cfg_of(b)
        fl = flow_of(b)
        okg = False
        for (s, labs) in guards_of(c, bb):
            bo = bool_origin(fl, c.term(s)["o"])
            if bo and any(n.endswith("PartialEq::eq") for n in call_names(bo[1])):
                sl = [fl.slice_operand(a) for a in bo[1]["args"]]
                if any(any(r[0] == "unit" and r[2] == "ReadWrite" for r in s_.roots) for s_ in sl):
                    te = switch_true_edges(c, s, bo[2])
                    if all(l in [e[2] for e in te] for l in labs):
                        okg = True
        if okg:
            R.ok("Q2", "schema upgrade only when the access mode is ReadWrite", where(b, bb))
        else:
            R.violation("Q2", b["owner_fn"], "upgrade-when-readonly", "the schema upgrade is not confined to the read-write access mode", where(b, bb))


def rule_Q3(F, R):
    R.begin("Q3", "add_to_working_set returns the index at which the task was stored (trait contract; SQLite's MAX(id)+1)")
    n = 0
    for im in F.impls_of_trait.get(TXN, []):
        if "inmemory" not in im["self"]:
            continue
        for it in im["items"]:
            if it["name"] != "add_to_working_set":
                continue
            b = F.real_body(it["path"])
            c = cfg_of(b)
            paths = [p for p in SymExec(b, c).run() if p.end[0] == "return"]
            for p in paths:
                n += 1
                pushes = [e for e in p.events if any(nm.endswith("Vec::<T, A>::push") for nm in e["names"])]
                lens = [e for e in p.events if any(nm.endswith("Vec::<T, A>::len") for nm in e["names"])]
                r = p.ret
                ok = False
                desc = show(r)
                if r[0] == "A" and r[2] == "Ok" and len(pushes) == 1:
                    v = r[3][0][1]
                    # len() before the push
                    if v[0] == "C" and v[2].endswith("::len") and v[1] < pushes[0]["id"]:
                        ok = True
                    # len() after the push, minus one
                    m = v
                    if m[0] == "F" and m[3] == 0:
                        m = m[1]
                    if m[0] == "B" and m[1] in ("SubWithOverflow", "Sub") and m[2][0] == "C" and m[2][2].endswith("::len") and m[2][1] > pushes[0]["id"] and str(m[3][1]).startswith("1"):
                        ok = True
                if ok:
                    R.ok("Q3", "in-memory add_to_working_set returns the stored position: %s" % desc[:120], where(b))
                else:
                    R.violation("Q3", it["path"], "returned-index", "the in-memory add_to_working_set returns %s, not the index the element was stored at (len before the push, or len-1 after)" % desc[:160], where(b))
    R.floor("Q3", "in-memory add_to_working_set return paths", n, 1)


def rule_N3(F, R):
    R.begin("N3", "both `is_empty` defaults (StorageTxn and WrappedStorageTxn) report empty only if there are no tasks, the base version is nil and there are no unsynchronised operations; snapshots are applied only on that outcome")
    n = 0
    for tr in (TXN, WTXN):
        b = F.real_body(tr + "::is_empty")
        if b is None:
            R.missing("N3", "default body of %s::is_empty" % tr)
            continue
        c = cfg_of(b)
        try:
            paths = [p for p in SymExec(b, c).run() if p.end[0] == "return"]
        except Exception as e:
            R.violation("N3", tr + "::is_empty", "table", str(e), where(b))
            continue
        n += 1
        bad = None
        true_rows = 0
        for p in paths:
            r = p.ret
            if not (r[0] == "A" and r[2] == "Ok"):
                continue
            v = r[3][0][1]
            conds = {a: o for (a, o, _bb) in p.atoms}
            # `a != b` false is `a == b` true
            for (a, o, _bb) in p.atoms:
                if a[0] == "call" and isinstance(a[1], str) and a[1].endswith("PartialEq::ne") and isinstance(o, bool):
                    conds[("call", a[1][:-2] + "eq") + tuple(a[2:])] = not o
            can_true = None
            if v[0] == "K":
                can_true = str(v[1]).replace("const ", "") == "true"
            elif v[0] == "C":
                conds[("call", v[2], v[3])] = True
                can_true = True
            else:
                can_true = True
            if not can_true:
                continue
            true_rows += 1
            tests = {"tasks": False, "base": False, "ops": False}
            for a, o in conds.items():
                if o is not True:
                    continue
                if a[0] == "call" and a[1].endswith("::is_empty") and _has(a[2], lambda z: z[0] == "C" and re.search(r"::(all_tasks|all_task_uuids)$", z[2])):
                    tests["tasks"] = True
                if a[0] == "call" and a[1].endswith("::is_empty") and _has(a[2], lambda z: z[0] == "C" and z[2].endswith("::unsynced_operations")):
                    tests["ops"] = True
                if a[0] == "call" and a[1].endswith("PartialEq::eq") and _has(a[2], lambda z: z[0] == "C" and z[2].endswith("::base_version")) and _has(a[2], lambda z: z[0] == "C" and z[2].endswith("::nil")):
                    tests["base"] = True
                if a[0] == "bin" and a[1] == "Eq" and _has(a, lambda z: z[0] == "C" and z[2].endswith("::num_unsynced_operations")):
                    tests["ops"] = True
            miss = [k for k, v_ in tests.items() if not v_]
            if miss:
                bad = "can report `empty` without checking %s" % miss
        if bad or not true_rows:
            R.violation("N3", tr + "::is_empty", "is_empty-incomplete", "%s::is_empty %s: a snapshot could be installed underneath existing data or pending operations" % (tr.split("::")[-1], bad or "never reports empty"), where(b))
        else:
            R.ok("N3", "%s::is_empty: empty => no tasks, nil base version, no unsynced operations" % tr.split("::")[-1], where(b))
    R.floor("N3", "is_empty default bodies", n, 2)
    # the sqlite / inmemory impls must not override is_empty with something weaker: either they use the default or their body is checked the same way
    for im in F.impls:
        tr = im.get("trait") or ""
        if tr in (TXN, WTXN):
            for it in im["items"]:
                if it["name"] == "is_empty" and "send_wrapper::wrapper" not in it["path"]:
                    R.info("N3", "%s overrides is_empty" % it["path"])
    # guards in sync and apply_snapshot
    import roles
    import r_sync
    sb = r_sync.sync_fn(F)
    for fn, what in (((sb or {}).get("owner_fn"), "get_snapshot"), (roles.apply_snapshot_fn(F), "set_task")):
        b = F.real_body(fn) if fn else None
        if b is None:
            R.missing("N3", "the sync function / the taskdb function that installs a snapshot")
            continue
        c = cfg_of(b)
        fl = flow_of(b)
        ie = calls_matching(c, re.escape(TXN) + "::is_empty$")
        targets = [i for i, t in c.calls() if any(n.endswith("::" + what) for n in call_names(t))]
        if not ie or not targets:
            R.violation("N3", fn, "no-emptiness-guard", "%s does not test is_empty() before %s" % (fn.split("::")[-1], what), where(b))
            continue
        edges = []
        for s in sorted(c.reach):
            t = c.term(s)
            if t and t["k"] == "switch":
                bo = bool_origin(fl, t["o"])
                if bo and bo[0] in {i for i, _t in ie}:
                    edges += switch_true_edges(c, s, bo[2])
        r = c.reachable(0, removed_edges=edges)
        badt = [i for i in targets if i in r]
        if badt or not edges:
            R.violation("N3", fn, "snapshot-onto-data", "%s can reach %s without is_empty() having returned true: a snapshot would replace existing data" % (fn.split("::")[-1], what), where(b, (badt or targets)[0]))
        else:
            R.ok("N3", "%s: %s only when is_empty() is true" % (fn.split("::")[-1], what), where(b, targets[0]))


def rule_N4(F, R):
    R.begin("N4", "apply_snapshot writes every decoded task with set_task and sets the base version to the snapshot's version; make_snapshot encodes all_tasks()")
    import roles
    enc_fn, dec_fn = roles.snapshot_codec(F)
    asf = roles.apply_snapshot_fn(F)
    b = F.real_body(asf) if asf else None
    if b is None or not dec_fn:
        R.missing("N4", "the taskdb function that installs a snapshot (set_task + set_base_version) / the snapshot decoder")
        return
    c = cfg_of(b)
    fl = flow_of(b)
    st = calls_matching(c, re.escape(TXN) + "::set_task$")
    sb = calls_matching(c, re.escape(TXN) + "::set_base_version$")
    dec = calls_matching(c, "^" + re.escape(dec_fn) + "$")
    if not st or not sb or not dec:
        R.violation("N4", b["owner_fn"], "apply-shape", "apply_snapshot lacks decode / set_task / set_base_version", where(b))
        return
    stop = lambda t: any(roles.norm(n) == roles.norm(dec_fn) for n in call_names(t))
    for (i, t) in st:
        if not c.in_loop(i):
            R.violation("N4", b["owner_fn"], "set_task-not-per-task", "set_task is not called once per decoded task", where(b, i))
            continue
        ok = True
        for ai in (1, 2):
            s = fl.slice_operand(t["args"][ai], stop=stop)
            if not any(r[0] == "call" and r[1] in {k for k, _t in dec} for r in s.roots):
                ok = False
        # unconditional in the loop body
        lp = min((body for h, body in c.loops().items() if i in body), key=len)
        hdr = [h for h, body in c.loops().items() if body == lp][0]
        backs = [s_ for (s_, d) in c.back_edges() if d == hdr]
        skip = [s_ for s_ in backs if s_ in c.reachable(hdr, removed={i})]
        if not ok:
            R.violation("N4", b["owner_fn"], "set_task-args", "set_task is not given the decoded (uuid, task) pair", where(b, i))
        elif skip:
            R.violation("N4", b["owner_fn"], "task-skipped", "an iteration over the decoded tasks can skip set_task", where(b, i))
        else:
            R.ok("N4", "every decoded task is written with set_task", where(b, i))
    for (i, t) in sb:
        s = fl.slice_operand(t["args"][1])
        if "version" in s.upvars() and not s.root_calls():
            R.ok("N4", "base version := the snapshot's version argument", where(b, i))
        else:
            R.violation("N4", b["owner_fn"], "base-version", "set_base_version is not given the snapshot's version", where(b, i))
    # on every successful path: a snapshot installed without its version leaves the replica at the nil
    # base version, and the versions after the snapshot are never applied
    from tc.util import error_blocks
    sbb = {i for i, _t in sb}
    r_ = c.reachable(0, removed=sbb | error_blocks(c))
    if any(k in r_ for k in c.exits()):
        R.violation("N4", b["owner_fn"], "base-version-skipped", "apply_snapshot can return successfully without set_base_version (e.g. for a snapshot with no tasks): the replica stays at the nil base version although the server has discarded the versions before the snapshot", where(b))
    else:
        R.ok("N4", "every successful path of apply_snapshot sets the base version", where(b))
    mkf = roles.make_snapshot_fn(F)
    mk = F.real_body(mkf) if mkf else None
    if mk is None or not enc_fn:
        R.missing("N4", "the taskdb function that builds a snapshot from all_tasks() / the snapshot encoder")
        return
    mc = cfg_of(mk)
    mf = flow_of(mk)
    at = calls_matching(mc, re.escape(TXN) + "::all_tasks$")
    enc = calls_matching(mc, "^" + re.escape(enc_fn) + "$")
    if not at or not enc:
        R.violation("N4", mk["owner_fn"], "make-shape", "make_snapshot does not encode all_tasks()", where(mk))
    else:
        s = mf.slice_operand(enc[0][1]["args"][0], stop=lambda t: any(n.endswith("::all_tasks") for n in call_names(t)))
        cut = sorted({x.split("::")[-1] for x in s.call_names() if re.search(r"Iterator::(filter|filter_map|take|skip|take_while|skip_while|map_while|step_by)$|::(retain|truncate|drain|split_off|pop|remove|dedup\w*)$", x)})
        if any(r[0] == "call" and r[1] == at[0][0] for r in s.roots) and (s.predicates or cut):
            R.violation("N4", mk["owner_fn"], "make-selection", "make_snapshot passes all_tasks() through %s before encoding: the snapshot leaves tasks out (a task without properties is still a task: a replica started from the snapshot never learns of it, and every later update of it is ignored there)" % ((cut or ["a filter"])[0]), where(mk, enc[0][0]))
        elif any(r[0] == "call" and r[1] == at[0][0] for r in s.roots):
            R.ok("N4", "make_snapshot encodes exactly all_tasks()", where(mk, enc[0][0]))
        else:
            R.violation("N4", mk["owner_fn"], "make-source", "the encoded snapshot does not derive from all_tasks()", where(mk, enc[0][0]))


def rule_N5(F, R):
    R.begin("N5", "snapshot codec pairing: encode = serde_json into a zlib encoder; decode = zlib decoder into serde_json; the serializer emits one (uuid, task) map entry per task")
    import roles
    ef, df = roles.snapshot_codec(F)
    enc = F.bodies.get(ef) if ef else None
    dec = F.bodies.get(df) if df else None
    if enc is None or dec is None:
        R.missing("N5", "the snapshot encoder / decoder (functions using ZlibEncoder / ZlibDecoder)")
        return
    en = {n for (_i, t) in cfg_of(enc).calls() for n in call_names(t)}
    dn = {n for (_i, t) in cfg_of(dec).calls() for n in call_names(t)}
    e_ok = any("ZlibEncoder" in n and n.endswith("::new") for n in en) and any(n.startswith("serde_json::") and "to_writer" in n for n in en) and any("ZlibEncoder" in n and n.endswith("::finish") for n in en)
    d_ok = any("ZlibDecoder" in n and n.endswith("::new") for n in dn) and any(n.startswith("serde_json::") and "from_reader" in n for n in dn)
    if e_ok and d_ok:
        R.ok("N5", "encode: serde_json::to_writer -> ZlibEncoder::finish; decode: ZlibDecoder -> serde_json::from_reader", where(enc))
    else:
        R.violation("N5", "taskdb::snapshot", "codec-pairing", "the snapshot encoder and decoder are no longer the zlib(JSON) pair (encode ok=%s, decode ok=%s)" % (e_ok, d_ok), where(enc))
    ser = None
    for p, b in F.bodies.items():
        if p.startswith("<taskdb::snapshot::") and p.endswith("::serialize") and "Serialize" in p and not p.startswith("<taskdb::snapshot::_"):
            ser = b
    if ser is None:
        R.missing("N5", "impl Serialize for SnapshotTasks")
        return
    c = cfg_of(ser)
    ents = calls_matching(c, r"SerializeMap::serialize_entry$")
    if len(ents) == 1 and c.in_loop(ents[0][0]):
        i = ents[0][0]
        lp = min((body for h, body in c.loops().items() if i in body), key=len)
        hdr = [h for h, body in c.loops().items() if body == lp][0]
        backs = [s_ for (s_, d) in c.back_edges() if d == hdr]
        if any(s_ in c.reachable(hdr, removed={i}) for s_ in backs):
            R.violation("N5", ser["path"], "entry-skipped", "the snapshot serializer can skip a task", where(ser, i))
        else:
            R.ok("N5", "serializer emits one map entry per task", where(ser, i))
    else:
        R.violation("N5", ser["path"], "serializer-shape", "the snapshot serializer does not emit one serialize_entry per task", where(ser))


# ---------------------------------------------------------------------------------------
# C06: D2-D5

def rule_D(F, R):
    R.begin("D2", "who may commit: the actor commits only in its Commit arm; among the SQLite transaction's methods rusqlite's commit is called only from `commit`; no set_drop_behavior / unchecked_transaction in storage::sqlite")
    # D2a covered by Q1 (actor table); here: rusqlite commit sites
    sites = []
    forbidden = []
    for bp, b in F.bodies.items():
        if not bp.startswith("storage::sqlite") and "storage::sqlite" not in bp:
            continue
        for (i, t) in F.calls_in.get(bp, ()):
            for n in call_names(t):
                if re.search(r"rusqlite::Transaction::<'.*>::commit$", n):
                    sites.append((bp, i, t))
                if re.search(r"set_drop_behavior|unchecked_transaction|Transaction::<'.*>::(new_unchecked|finish)$", n):
                    forbidden.append((bp, i, t, n))
    im = sqlite_txn_impl(F)
    ok_commit_owner = None
    if im:
        for it in im["items"]:
            if it["name"] == "commit":
                ok_commit_owner = it["path"]
    nrt = 0
    for (bp, i, t) in sites:
        owner = F.owner(bp)
        if "schema" in bp:
            R.ok("D2", "schema upgrade commits its own transaction (open time)", where(F.bodies[bp], i))
            continue
        nrt += 1
        if ok_commit_owner and owner == ok_commit_owner:
            R.ok("D2", "rusqlite commit inside WrappedStorageTxn::commit", where(F.bodies[bp], i))
        else:
            R.violation("D2", owner, "commit-outside-commit", "%s commits the SQLite transaction although it is not the transaction's commit method" % owner, where(F.bodies[bp], i))
    R.floor("D2", "rusqlite Transaction::commit sites in the runtime SQLite transaction", nrt, 1)
    for (bp, i, t, n) in forbidden:
        R.violation("D2", F.owner(bp), "drop-behaviour-changed", "%s is used in storage::sqlite: a dropped transaction would no longer roll back" % n.split("::")[-1], where(F.bodies[bp], i))
    if not forbidden:
        R.ok("D2", "no set_drop_behavior / unchecked_transaction in storage::sqlite (matcher controlled by the commit-site floor above)", None)
    # D3: one rusqlite transaction per StorageTxn, reached only through it
    R.begin("D3", "one real SQLite transaction behind each StorageTxn: WrappedStorage::txn makes exactly one Connection::transaction* call; every method reaches the connection only through that transaction")
    found = False
    for im2 in F.impls:
        if (im2.get("trait") or "").endswith("WrappedStorage") and "sqlite" in im2["self"]:
            for it in im2["items"]:
                if it["name"] == "txn":
                    b = F.real_body(it["path"])
                    c = cfg_of(b)
                    tx = [(i, t) for i, t in c.calls() if any(re.search(r"rusqlite::.*Connection>?::(transaction|transaction_with_behavior)$", n) for n in call_names(t))]
                    found = True
                    if len(tx) == 1 and not c.in_loop(tx[0][0]):
                        R.ok("D3", "SQLite txn(): one Connection::transaction* call", where(b, tx[0][0]))
                    else:
                        R.violation("D3", it["path"], "txn-begin-count", "the SQLite storage begins %d transactions per StorageTxn (autocommit statements are not atomic together)" % len(tx), where(b))
    if not found:
        R.missing("D3", "impl WrappedStorage for the SQLite storage")
    if im:
        bad = 0
        nm = 0
        for it in im["items"]:
            b = F.real_body(it["path"])
            if b is None:
                continue
            for (i, t) in cfg_of(b).calls():
                for n in call_names(t):
                    if re.search(r"^rusqlite::Connection::(execute|prepare|query_row|execute_batch|prepare_cached)", n):
                        # must be reached through a Transaction deref, i.e. receiver derives from get_txn()/self.txn
                        s = flow_of(b).slice_operand(t["args"][0])
                        nm += 1
                        own_helper = any((tt.get("callee") or "").startswith("storage::sqlite::inner::Txn") for tt in s.calls.values())
                        if not (own_helper or any("txn" in str(r) for r in s.roots)):
                            bad += 1
                            R.violation("D3", it["path"], "statement-outside-transaction", "%s runs a statement on the bare connection" % it["name"], where(b, i))
        if not bad:
            R.ok("D3", "all %d statements of the SQLite transaction go through its rusqlite::Transaction" % nm, None)
    # D4: proxy reports commit faithfully
    R.begin("D4", "the proxy's commit returns the actor's reply unchanged")
    for im3 in F.impls_of_trait.get(TXN, []):
        if "WrapperTxn" in im3["self"]:
            for it in im3["items"]:
                if it["name"] == "commit":
                    b = F.real_body(it["path"])
                    paths = [p for p in SymExec(b, cfg_of(b)).run() if p.end[0] == "return"]
                    okc = bool(paths)
                    for p in paths:
                        if not (p.ret[0] == "C" and "send_wrapper::wrapper" in p.ret[2] and _has(p.ret, lambda v: v == ("K", "fn:" + MSG + "::Commit"))):
                            okc = False
                    if okc:
                        R.ok("D4", "WrapperTxn::commit returns call(TxnMessage::Commit) on all %d paths" % len(paths), where(b))
                    else:
                        R.violation("D4", it["path"], "commit-result-not-forwarded", "the proxy's commit does not return the actor's Commit reply: a failed commit could be reported as success", where(b))
    # D4 for every proxied method: the caller learns the actor's verdict
    helpers = set()
    for q, qb in F.bodies.items():
        if not q.startswith("storage::send_wrapper::wrapper::") or qb["kind"] not in ("AssocFn", "Fn") or F.owner(q) != q:
            continue
        rb = F.real_body(q)
        if rb is None or not any(any(n.endswith("oneshot::channel") for n in call_names(t)) for _i, t in cfg_of(rb).calls()):
            continue
        ps = [p for p in SymExec(rb, cfg_of(rb)).run() if p.end[0] == "return"]
        good = [p for p in ps if not (p.ret[0] == "A" and p.ret[2] == "Err")]
        if good and all(_has(p.ret, lambda v: v[0] == "F" and v[1][0] == "C" and v[1][2].endswith("oneshot::channel") and str(v[3]) == "1") for p in good):
            helpers.add(q)
    if not helpers:
        R.missing("D4", "the proxy's request/reply helper (creates a oneshot channel and returns what the receiver yields)")
    nmeth = 0
    for im3 in F.impls_of_trait.get(TXN, []):
        if "WrapperTxn" not in im3["self"] or not helpers:
            continue
        for it in im3["items"]:
            if not it.get("fn") or it["name"] == "commit":
                continue
            b = F.real_body(it["path"])
            if b is None:
                continue
            nmeth += 1
            paths = [p for p in SymExec(b, cfg_of(b)).run() if p.end[0] == "return"]
            bad = [p for p in paths if not (p.ret[0] == "A" and p.ret[2] == "Err") and not _has(p.ret, lambda v: v[0] == "C" and v[2] in helpers)]
            if bad or not paths:
                R.violation("D4", it["path"], "reply-not-awaited:" + it["name"], "the proxy's %s can return without the actor's reply: a write the actor thread rejected is reported as done, and the commit goes ahead with part of the batch missing" % it["name"], where(b))
            else:
                R.ok("D4", "%s returns the actor's reply" % it["name"], where(b))
    R.floor("D4", "proxied StorageTxn methods", nmeth, 18)
    # D5: crash-safe journal
    R.begin("D5", "the SQLite journal mode is crash-safe (not MEMORY/OFF) and synchronous is not OFF")
    n = 0
    for bp, b in F.bodies.items():
        if "storage::sqlite" not in bp and "server::local" not in bp:
            continue
        fl = None
        for (i, t) in F.calls_in.get(bp, ()):
            for a in t["args"]:
                if "k" not in a and op_place(a) is None:
                    continue
                if fl is None:
                    fl = flow_of(b)
                for sv in const_strs(fl.slice_operand(a, through_all_calls=False), F):
                    if not sv:
                        continue
                    m = re.search(r"PRAGMA\s+journal_mode\s*=\s*(\w+)", sv, re.I)
                    if m:
                        n += 1
                        if m.group(1).upper() in ("MEMORY", "OFF"):
                            R.violation("D5", F.owner(bp), "journal_mode=%s" % m.group(1).upper(), "journal_mode=%s keeps no durable rollback information: a process kill during a transaction leaves a half-written database" % m.group(1), where(b, i))
                        else:
                            R.ok("D5", "journal_mode=%s" % m.group(1), where(b, i))
                    m = re.search(r"PRAGMA\s+synchronous\s*=\s*(\w+)", sv, re.I)
                    if m and m.group(1).upper() in ("OFF", "0"):
                        R.violation("D5", F.owner(bp), "synchronous=OFF", "synchronous=OFF: an acknowledged commit may be lost", where(b, i))
    R.floor("D5", "journal_mode pragmas examined", n, 1)
    # the connection reads the real database with its journal: no URI parameter or flag that makes SQLite
    # skip the WAL or the locks (immutable=1, nolock=1), an alternative VFS, or an in-memory database
    import roles
    no = 0
    for bp, b in sorted(F.bodies.items()):
        if "storage::sqlite" not in bp:
            continue
        opens = [(i, t) for (i, t) in F.calls_in.get(bp, ()) if any(re.search(r"rusqlite::Connection::open", x) for x in call_names(t))]
        if not opens:
            continue
        no += len(opens)
        lits = roles.body_literals(F, b, depth=1)
        bad = sorted(s for s in lits if re.search(r"immutable=|nolock=|mode=memory|[?&]vfs=|SQLITE_OPEN_URI|SQLITE_OPEN_MEMORY|open_in_memory", s or ""))
        memo = [x for (_i, t) in opens for x in call_names(t) if x.endswith("open_in_memory")]
        if bad or memo:
            R.violation("D5", F.owner(bp), "connection-bypasses-journal", "the SQLite connection is opened with `%s`: such a connection does not read the write-ahead log (or is not the file at all), so transactions committed before a process kill are invisible to it" % (bad or memo)[0][:60], where(b, opens[0][0]))
        else:
            R.ok("D5", "connection opened on the plain database path (no immutable/nolock/vfs/memory)", where(b, opens[0][0]))
    R.floor("D5", "Connection::open sites in storage::sqlite", no, 1)
    # who may touch the database files: SQLite alone. The -wal and -shm files carry committed
    # transactions and the locks shared between processes
    FS_MUT = re.compile(r"^std::fs::(remove_file|remove_dir|remove_dir_all|rename|write|copy|set_permissions|hard_link)$|^std::fs::File::(create|create_new)$|^std::fs::OpenOptions::open$|::set_len$")
    nfs = 0
    for bp, b in sorted(F.bodies.items()):
        if "storage::sqlite" not in bp:
            continue
        for (i, t) in F.calls_in.get(bp, ()):
            nm = [x for x in call_names(t) if FS_MUT.search(x)]
            if nm:
                nfs += 1
                R.violation("D5", F.owner(bp), "database-file-touched:" + nm[0].split("::")[-1], "storage::sqlite calls %s: the files next to the database (-wal, -shm) hold committed transactions and the inter-process locks; removing or rewriting them behind SQLite's back loses commits or the mutual exclusion of two processes" % nm[0], where(b, i))
    if not nfs:
        R.ok("D5", "storage::sqlite never modifies files itself (only create_dir_all of the directory and SQLite)", None)


def rule_Q4(F, R):
    R.begin("Q4", "sibling agreement of remove_operation: both storages compare the *decoded* last unsynchronised operation with the given one (Operation equality), and remove it only on equality")
    n = 0
    for im in F.impls:
        tr = im.get("trait") or ""
        if tr not in (TXN, WTXN) or "send_wrapper::wrapper" in im["self"] or "WrapperTxn" in im["self"]:
            continue
        for it in im["items"]:
            if it["name"] != "remove_operation":
                continue
            b = F.real_body(it["path"])
            if b is None:
                continue
            n += 1
            c = cfg_of(b)
            fl = flow_of(b)
            eqs = [(i, t) for i, t in c.calls() if any(re.search(r"PartialEq::(eq|ne)$", x) for x in call_names(t)) and any("operation::Operation" in s_ for s_ in t.get("substs", []) + [t.get("resolved") or ""])]
            removal = [(i, t) for i, t in c.calls() if any(re.search(r"Vec::<T, A>::pop$|Connection::execute$", x) for x in call_names(t))]
            removal = [(i, t) for (i, t) in removal if any(x.endswith("::pop") for x in call_names(t)) or any("DELETE" in (sv or "") for a in t["args"] for sv in const_strs(fl.slice_operand(a, through_all_calls=False), F))]
            if not eqs:
                R.violation("Q4", it["path"], "no-decoded-comparison", "%s does not compare the stored operation with the given one as decoded Operation values (a textual/SQL comparison differs from the other storage for equal operations whose encodings differ)" % im["self"], where(b))
                continue
            okr = bool(removal)
            for (ri, rt) in removal:
                g = False
                for (s, labs) in guards_of(c, ri):
                    bo = bool_origin(fl, c.term(s)["o"])
                    if bo and bo[0] in {k for k, _t in eqs}:
                        isne = any(x.endswith("::ne") for x in call_names(bo[1]))
                        te = switch_true_edges(c, s, bo[2])
                        on_true = all(l in [e[2] for e in te] for l in labs)
                        if on_true != isne:
                            g = True
                okr = okr and g
            if okr:
                R.ok("Q4", "%s: removal only when the decoded operations are equal" % im["self"], where(b))
            else:
                R.violation("Q4", it["path"], "removal-not-gated-by-equality", "%s removes the last operation without the decoded-equality test" % im["self"], where(b))
    R.floor("Q4", "remove_operation implementations", n, 2)


def rule_N3_overrides(F, R):
    R.begin("N3o", "an implementation that overrides is_empty must still look only at *unsynchronised* operations, all tasks and the base version")
    for im in F.impls:
        tr = im.get("trait") or ""
        if tr not in (TXN, WTXN):
            continue
        for it in im["items"]:
            if it["name"] != "is_empty" or "send_wrapper::wrapper" in it["path"]:
                continue
            b = F.real_body(it["path"])
            if b is None:
                continue
            c = cfg_of(b)
            fl = flow_of(b)
            names = {n_ for (_i, t) in c.calls() for n_ in call_names(t)}
            sqls = []
            for (_i, t) in c.calls():
                for a in t["args"]:
                    for sv in const_strs(fl.slice_operand(a, through_all_calls=False), F):
                        if sv and re.search(r"\\b(SELECT|EXISTS)\\b", sv, re.I):
                            sqls.append(sv)
            uses_trait = any(n_.endswith("::unsynced_operations") or n_.endswith("::num_unsynced_operations") for n_ in names)
            ops_sql = [s_ for s_ in sqls if re.search(r"\\boperations\\b", s_)]
            bad_sql = [s_ for s_ in ops_sql if not re.search(r"NOT\\s+synced|synced\\s*=\\s*(0|false)", s_, re.I)]
            if bad_sql:
                R.violation("N3o", it["path"], "is_empty-counts-synced-operations", "%s overrides is_empty and looks at all rows of `operations` (%s): synchronised operations that are kept for history make a store look non-empty / differ from the other storage" % (im["self"], bad_sql[0][:80]), where(b))
            elif not uses_trait and not ops_sql:
                R.violation("N3o", it["path"], "is_empty-override-opaque", "%s overrides is_empty without consulting the unsynchronised operations" % im["self"], where(b))
            else:
                R.ok("N3o", "%s overrides is_empty consistently" % im["self"], where(b))


def rule_D6(F, R):
    R.begin("D6", "the per-handle SQLite storage object holds no replica data (tasks, operations, working-set entries) between transactions: another handle's commit would not be seen")
    n = 0
    for im in F.impls:
        if not (im.get("trait") or "").endswith("WrappedStorage") or "sqlite" not in im["self"]:
            continue
        adt = F.adts.get(im["self"])
        if adt is None:
            R.missing("D6", "struct %s" % im["self"])
            continue
        n += 1
        # exact table: the handle is the connection and its access mode; anything else is state that
        # outlives a transaction (and survives its rollback)
        HANDLE_OK = {"rusqlite::Connection": "the connection", "storage::config::AccessMode": "configuration, fixed at open"}
        bad = []
        for f in adt["variants"][0]["fields"]:
            if f["ty"] not in HANDLE_OK:
                bad.append((f["name"], f["ty"]))
        if bad:
            R.violation("D6", im["self"], "data-cached-in-handle:%s" % bad[0][0], "%s keeps `%s: %s` across transactions: it survives the rollback of the transaction that set it, and commits made through other handles or processes are not reflected in it" % (im["self"], bad[0][0], bad[0][1]), loc(adt["sp"]))
        else:
            R.ok("D6", "%s fields: %s" % (im["self"], [f["name"] for f in adt["variants"][0]["fields"]]), loc(adt["sp"]))
    R.floor("D6", "SQLite storage handle structs", n, 1)
    # the transaction object: the rusqlite transaction and the access mode; a value remembered next to them
    # (a next index, a count) goes stale when another method of the same transaction changes the table
    TXN_OK = {"access_mode"}
    nt = 0
    for k, a in sorted(F.adts.items()):
        if not k.startswith("storage::sqlite::inner::Txn"):
            continue
        nt += 1
        bad = [(f["name"], f["ty"]) for f in a["variants"][0]["fields"] if not (re.search(r"rusqlite::Transaction<", f["ty"]) or f["ty"] == "storage::config::AccessMode")]
        if bad:
            R.violation("D6", k, "data-cached-in-transaction:%s" % bad[0][0], "the SQLite transaction object keeps `%s: %s` beside the rusqlite transaction: a value derived from a table is stale as soon as another method of the same transaction changes that table" % bad[0], loc(a["sp"]))
        else:
            R.ok("D6", "%s fields: %s" % (k, [f["name"] for f in a["variants"][0]["fields"]]), loc(a["sp"]))
    R.floor("D6", "SQLite transaction structs", nt, 1)
    # the layers above the storage: TaskDb and Replica are per-handle objects as well; replica data kept in
    # them between transactions is not updated by another handle's commit
    DERIVED_OK = {("replica::Replica", "depmap"): "derived data, rebuilt on request (dependency_map(force)) and dropped by every method of this handle that writes tasks (rule M9)"}
    m = 0
    for name in ("taskdb::TaskDb", "replica::Replica"):
        adt = F.adts.get(name)
        if adt is None:
            R.missing("D6", "struct %s" % name)
            continue
        m += 1
        bad = []
        for f in adt["variants"][0]["fields"]:
            if (name, f["name"]) in DERIVED_OK:
                continue
            if re.search(r"uuid::Uuid|TaskMap|operation::Operation|HashMap<|Vec<|BTreeMap<|HashSet<|WorkingSet|DependencyMap", f["ty"]):
                bad.append((f["name"], f["ty"]))
        if bad:
            R.violation("D6", name, "data-cached-in-handle:%s" % bad[0][0], "%s keeps `%s: %s` between transactions: decisions taken from it ignore what another handle on the same database has committed since (a working-set entry added twice, or a re-opened task not put back)" % (name, bad[0][0], bad[0][1]), loc(adt["sp"]))
        else:
            R.ok("D6", "%s fields: %s" % (name, [f["name"] for f in adt["variants"][0]["fields"]]), loc(adt["sp"]))
    R.floor("D6", "per-handle structs above the storage", m, 2)


def rule_Q6(F, R):
    R.begin("Q6", "in-memory transactions read their own writes: the committed data of the storage (`storage.data`) is touched only by the transaction's view accessors (which prefer the transaction's private copy) and by commit; every StorageTxn method goes through the view. A read of the committed data from inside a transaction misses what the same transaction has written (a snapshot made at the end of a sync would lack the versions just applied)")
    n = 0
    bad = 0
    for p, b in sorted(F.bodies.items()):
        if not ("storage::inmemory" in p) or not b.get("blocks"):
            continue
        # only code that holds a transaction: first parameter (or captured self) of type Txn
        tys = " ".join(l["ty"] for l in b["locals"])
        if "storage::inmemory::Txn" not in tys:
            continue
        is_view = b["kind"] == "AssocFn" and re.search(r"^&(mut )?('\w+ )?storage::inmemory::Data$", (b.get("sig_out") or "").replace("'_ ", ""))
        is_commit = F.owner(p).endswith("::commit") or p.endswith("::commit")
        touched = []
        for bi, bl in enumerate(b["blocks"]):
            if bl["cleanup"]:
                continue

            def places():
                for st in bl["s"]:
                    if st["k"] == "assign":
                        yield st["l"], st["sp"]
                        r = st["r"]
                        for key in ("p",):
                            if isinstance(r.get(key), dict) and "l" in r[key]:
                                yield r[key], st["sp"]
                        for key in ("o", "a", "b"):
                            o = r.get(key)
                            if isinstance(o, dict):
                                q = op_place(o)
                                if q:
                                    yield q, st["sp"]
                        for o in r.get("ops", []):
                            q = op_place(o)
                            if q:
                                yield q, st["sp"]
                t = bl["t"]
                if t and t["k"] == "call":
                    for a in t["args"]:
                        q = op_place(a)
                        if q:
                            yield q, t["sp"]
                if t and t["k"] == "drop" and isinstance(t.get("p"), dict):
                    yield t["p"], t["sp"]
            for (pl, sp) in places():
                names = [e.get("n") for e in pl["p"] if isinstance(e, dict) and "n" in e]
                for k in range(len(names) - 1):
                    if names[k] == "storage" and names[k + 1] == "data":
                        touched.append(sp)
        if not touched:
            continue
        n += 1
        if is_view or is_commit:
            R.ok("Q6", "%s touches the committed data (%s)" % (p, "view accessor" if is_view else "commit"), where(b, sp=touched[0]))
        else:
            bad += 1
            R.violation("Q6", F.owner(p), "committed-data-read-in-transaction", "%s reads `storage.data` directly instead of the transaction's view: it does not see what this transaction has already written" % p.split("::")[-1], where(b, sp=touched[0]))
    R.floor("Q6", "functions of the in-memory transaction that touch the committed data (view accessors + commit)", n, 3)


def _split_top(s):
    out, depth, cur = [], 0, ""
    for ch in s:
        if ch == "(":
            depth += 1
        elif ch == ")":
            depth -= 1
        if ch == "," and depth == 0:
            out.append(cur)
            cur = ""
        else:
            cur += ch
    if cur.strip():
        out.append(cur)
    return [x.strip() for x in out]


def rule_Q5(F, R):
    R.begin("Q5", "schema upgrades keep the stored data: following the SQL of storage::sqlite::schema statement by statement over a model of the tables, no stored (non-generated) column is dropped, no table holding stored columns is dropped unless every such column was copied to its successor first, and a table rebuild (INSERT INTO new (..) SELECT .. FROM old) names every stored column the two tables share. A column left out of the copy comes back with its default: after `synced` is lost every synchronised operation is pending again")
    import roles
    stmts = []
    for p, b in F.bodies.items():
        if "storage::sqlite::schema" not in p or not b.get("blocks") or b["kind"] not in ("Fn", "AssocFn"):
            continue
        # every function of the schema module: an upgrade may delegate its statements to helpers
        c = cfg_of(b)
        for (i, sv) in roles.sql_in_body(F, b):
            if re.match(r"^\s*(CREATE|ALTER|DROP|INSERT)\b", sv, re.I):
                t = c.term(i)
                stmts.append(((t["sp"].get("l", 0) if t else 0), " ".join(sv.replace("\\n", " ").replace("\\t", " ").split()), p, i))
    stmts.sort(key=lambda x: (x[0], x[1]))
    if not R.floor("Q5", "schema statements in the upgrade functions", len(stmts), 3):
        return
    tables = {}
    copied = {}      # old table -> set of stored columns copied out of it
    nrebuild = 0
    for (line, sql, p, i) in stmts:
        w = where(F.bodies[p], i)
        m = re.match(r"CREATE TABLE (IF NOT EXISTS )?(\w+) \((.*)\)\s*;?$", sql, re.I)
        if m:
            name = m.group(2)
            if m.group(1) and name in tables:
                continue
            cols = {}
            for d in _split_top(m.group(3)):
                cn = d.split()[0]
                if cn.upper() in ("PRIMARY", "UNIQUE", "CHECK", "FOREIGN", "CONSTRAINT"):
                    continue
                cols[cn] = not re.search(r"GENERATED ALWAYS", d, re.I)
            tables[name] = cols
            continue
        m = re.match(r"ALTER TABLE (\w+) ADD COLUMN (\w+)(.*)$", sql, re.I)
        if m:
            tables.setdefault(m.group(1), {})[m.group(2)] = not re.search(r"GENERATED ALWAYS", m.group(3), re.I)
            continue
        m = re.match(r"ALTER TABLE (\w+) DROP COLUMN (\w+)", sql, re.I)
        if m:
            t_, c_ = m.group(1), m.group(2)
            if tables.get(t_, {}).get(c_, True):
                R.violation("Q5", p, "stored-column-dropped:%s.%s" % (t_, c_), "the upgrade drops the stored column %s.%s: its contents are lost" % (t_, c_), w)
            else:
                R.ok("Q5", "dropped column %s.%s is generated (holds no data)" % (t_, c_), w)
            tables.get(t_, {}).pop(c_, None)
            continue
        m = re.match(r"ALTER TABLE (\w+) RENAME TO (\w+)", sql, re.I)
        if m:
            tables[m.group(2)] = tables.pop(m.group(1), {})
            continue
        m = re.match(r"INSERT INTO (\w+) \(([^)]*)\) SELECT (.*?) FROM (\w+)", sql, re.I)
        if m and m.group(4) in tables and m.group(1) in tables:
            nrebuild += 1
            new, old = m.group(1), m.group(4)
            named = {x.strip() for x in m.group(2).split(",")}
            shared = {cn for cn, stored in tables[old].items() if stored and tables[new].get(cn)}
            missing = sorted(shared - named)
            copied.setdefault(old, set()).update(named)
            if missing:
                R.violation("Q5", p, "column-not-copied:%s.%s" % (new, missing[0]), "the rebuild of table %s copies (%s) from %s and leaves out the stored column `%s`: every row gets the column's default instead of its value" % (new, ", ".join(sorted(named)), old, missing[0]), w)
            else:
                R.ok("Q5", "rebuild of %s copies every shared stored column of %s" % (new, old), w)
            continue
        m = re.match(r"DROP TABLE (IF EXISTS )?(\w+)", sql, re.I)
        if m:
            name = m.group(2)
            stored = {cn for cn, s in tables.get(name, {}).items() if s}
            lost = sorted(stored - copied.get(name, set()))
            if name in tables and lost:
                R.violation("Q5", p, "table-dropped:%s" % name, "the upgrade drops table %s whose stored column `%s` was not copied anywhere" % (name, lost[0]), w)
            else:
                R.ok("Q5", "dropped table %s had been copied" % name, w)
            tables.pop(name, None)
            continue
    R.ok("Q5", "schema model after the upgrades: %s" % "; ".join("%s(%s)" % (t_, ", ".join(sorted(cs))) for t_, cs in sorted(tables.items())), None)
    R.info("Q5", "table rebuilds examined: %d" % nrebuild)


def rule_Q7(F, R):
    R.begin("Q7", "sibling agreement of sync_complete: like the in-memory storage, the SQLite transaction marks every unsynchronised operation as synchronised and removes the operations of tasks that no longer exist - all of them, whether they were synchronised earlier or just now (a task deleted after its first operations were synchronised must not keep those)")
    import roles
    im = sqlite_txn_impl(F)
    b = None
    if im:
        for it in im["items"]:
            if it["name"] == "sync_complete":
                b = F.real_body(it["path"])
    if b is None:
        R.missing("Q7", "the SQLite transaction's sync_complete")
        return
    sqls = [" ".join(sv.replace("\\n", " ").split()) for (_i, sv) in roles.sql_in_body(F, b) if re.match(r"^\s*(UPDATE|DELETE)\b", sv, re.I)]
    upd = [q for q in sqls if re.match(r"UPDATE operations SET synced\s*=\s*(true|1)", q, re.I)]
    dele = [q for q in sqls if re.match(r"DELETE from operations", q, re.I)]
    if not upd:
        R.violation("Q7", b["owner_fn"], "no-mark-synced", "sync_complete does not mark the unsynchronised operations as synchronised", where(b))
    else:
        R.ok("Q7", "marks operations synchronised: %s" % upd[0][:80], where(b))
    if not dele:
        R.violation("Q7", b["owner_fn"], "no-orphan-removal", "sync_complete does not remove the operations of tasks that no longer exist", where(b))
        return
    for q in dele:
        m = re.search(r"\bWHERE\b(.*)$", q, re.I)
        outer = m.group(1) if m else ""
        # the condition outside any sub-select
        depth, flat = 0, ""
        for ch in outer:
            if ch == "(":
                depth += 1
            elif ch == ")":
                depth -= 1
            elif depth == 0:
                flat += ch
        if not re.search(r"\btasks\b", q, re.I):
            R.violation("Q7", b["owner_fn"], "orphan-test", "the removal of operations is not tied to the task no longer existing: %s" % q[:100], where(b))
        elif re.search(r"\bsynced\b", (q[q.lower().index("where"):] if "where" in q.lower() else ""), re.I):
            R.violation("Q7", b["owner_fn"], "orphan-removal-restricted-by-synced", "the removal of orphaned operations consults the `synced` flag (%s): operations synchronised earlier stay behind when their task goes away later, unlike in the in-memory storage" % q[q.lower().index("where"):][:110], where(b))
        else:
            R.ok("Q7", "orphaned operations removed regardless of the synced flag", where(b))


def rule_Q8(F, R):
    R.begin("Q8", "sibling agreement on the length of the working set: SQLite derives the next index from MAX(id), so blanking the last entry shortens the working set at once; the in-memory transaction must drop trailing blanks in the same call that writes one (set_working_set_item), not later, or the next add_to_working_set in the same transaction returns a different index than SQLite")
    norm = None
    for p_, b in F.bodies.items():
        if "storage::inmemory" not in p_ or b["kind"] not in ("AssocFn", "Fn") or not b.get("blocks"):
            continue
        c = cfg_of(b)
        if c.loops() and any(any(x.endswith("Vec::<T, A>::pop") for x in call_names(t)) for (_i, t) in c.calls()) and any(any(x.endswith("::last") for x in call_names(t)) for (_i, t) in c.calls()):
            norm = p_
    if norm is None:
        R.missing("Q8", "the in-memory function that pops trailing blanks off the working set")
        return
    target = None
    for im in F.impls_of_trait.get(TXN, []):
        if "inmemory" in im["self"]:
            for it in im["items"]:
                if it["name"] == "set_working_set_item":
                    target = F.real_body(it["path"])
    if target is None:
        R.missing("Q8", "the in-memory set_working_set_item")
        return
    c = cfg_of(target)
    nn = re.sub(r"::<[^>]*>", "", norm)
    bad = False
    for pth in SymExec(target, c, max_paths=2000).run():     # feasible paths only (async_trait's constant test is decided)
        if pth.end[0] != "return" or (pth.ret and pth.ret[0] == "A" and pth.ret[2] == "Err"):
            continue
        if not any(re.sub(r"::<[^>]*>", "", x) == nn for e in pth.events for x in e["names"]):
            bad = True
    if bad:
        R.violation("Q8", target["owner_fn"], "blank-tail-not-trimmed", "the in-memory set_working_set_item can return successfully without dropping trailing blanks: after blanking the last entry the next add_to_working_set in the same transaction gets the index after the blank, while SQLite reuses it", where(target))
    else:
        R.ok("Q8", "in-memory set_working_set_item trims trailing blanks before returning", where(target))


def rule_Q9(F, R):
    R.begin("Q9", "read-only means read-only on disk too: opening a SQLite store with AccessMode::ReadOnly runs the schema upgrade only when the database file did not exist (a fresh, empty database has to be created to be readable at all); an existing database of an older schema is left exactly as it is. And the count of unsynchronised operations counts rows, not a nullable column (UndoPoint operations have no uuid)")
    opener = None
    for p_, b in F.bodies.items():
        if "storage::sqlite" in p_ and b["kind"] in ("Fn", "AssocFn") and any(any(re.search(r"rusqlite::Connection::open", x) for x in call_names(t)) for (_i, t) in F.calls_in.get(p_, ())):
            opener = b
    if opener is None:
        R.missing("Q9", "the function that opens the SQLite connection")
    else:
        c = cfg_of(opener)
        paths = SymExec(opener, c, max_paths=8000).run()
        nup = 0
        bad = None
        for pth in paths:
            ups = [e for e in pth.events if re.search(r"schema::upgrade_db$", e["callee"])]
            if not ups:
                continue
            nup += 1
            req_ro = None
            exists = None
            # the engine does not know that two different variants exclude each other: drop paths on which the
            # requested mode is established to equal two different variants
            eqs = {}
            for (a, o, _bb) in pth.atoms:
                if a[0] == "call" and re.search(r"PartialEq::(eq|ne)$", a[1]) and _has(a[2], lambda v: v == ("P", "access_mode")):
                    for v in a[2]:
                        if v[0] == "A":
                            eqs[v[2]] = bool(o) if a[1].endswith("::eq") else (not o)
            if len([k for k, v in eqs.items() if v]) > 1:
                continue
            for (a, o, _bb) in pth.atoms:
                if a[0] == "call" and re.search(r"PartialEq::(eq|ne)$", a[1]) and _has(a[2], lambda v: v == ("P", "access_mode")) and _has(a[2], lambda v: v[0] == "A" and v[2] == "ReadOnly"):
                    val = bool(o) if a[1].endswith("::eq") else (not o)
                    req_ro = val if req_ro is None else req_ro
                if a[0] in ("call", "call#") and any(isinstance(x, str) and x.endswith("Path::exists") for x in a):
                    exists = bool(o)
            if req_ro is True and exists is not False:
                bad = pth
        if nup == 0:
            R.missing("Q9", "a path of the opener that runs schema::upgrade_db")
        elif bad is not None:
            R.violation("Q9", opener["path"], "read-only-open-upgrades-existing-db", "a store requested ReadOnly can run the schema upgrade although the database file exists: an older-schema database is rewritten in place (tables altered, version row written) by a read-only open", where(opener, bad.blocks[-1]))
        else:
            R.ok("Q9", "ReadOnly opens upgrade only a database that did not exist (%d upgrading paths examined)" % nup, where(opener))
    import roles
    im = sqlite_txn_impl(F)
    b = None
    if im:
        for it in im["items"]:
            if it["name"] == "num_unsynced_operations":
                b = F.real_body(it["path"])
    if b is None:
        R.missing("Q9", "the SQLite transaction's num_unsynced_operations")
        return
    sq = [" ".join(sv.split()) for (_i, sv) in roles.sql_in_body(F, b) if re.search(r"\bcount\s*\(", sv, re.I)]
    if not sq:
        R.missing("Q9", "the COUNT statement of num_unsynced_operations")
        return
    m = re.search(r"count\s*\(\s*([^)]*?)\s*\)", sq[0], re.I)
    arg = m.group(1).lower() if m else "?"
    if arg in ("*", "1", "id"):
        R.ok("Q9", "num_unsynced_operations counts rows: %s" % sq[0][:80], where(b))
    else:
        R.violation("Q9", b["owner_fn"], "count-of-nullable-column:" + arg, "num_unsynced_operations counts `%s`, which is NULL for operations without a task (UndoPoint): the count is smaller than the number of unsynchronised operations and than the in-memory storage's" % arg, where(b))


def rule_Q10(F, R):
    R.begin("Q10", "sibling agreement on what each SQLite StorageTxn method modifies: like its in-memory sibling, a task method changes only the tasks table, an operation method only the operations table, a working-set method only the working_set table, set_base_version only sync_meta. A task method that also deletes from `operations` removes changes that were committed but not yet sent (they never reach the server) or breaks undo")
    import roles
    im = sqlite_txn_impl(F)
    if im is None:
        R.missing("Q10", "the SQLite transaction impl")
        return
    table = {
        "create_task": {"tasks"}, "set_task": {"tasks"}, "delete_task": {"tasks"},
        "set_base_version": {"sync_meta"},
        "add_operation": {"operations"}, "remove_operation": {"operations"}, "sync_complete": {"operations"},
        "add_to_working_set": {"working_set"}, "set_working_set_item": {"working_set"}, "clear_working_set": {"working_set"},
        "get_task": set(), "get_pending_tasks": set(), "all_tasks": set(), "all_task_uuids": set(), "base_version": set(),
        "get_task_operations": set(), "unsynced_operations": set(), "num_unsynced_operations": set(), "get_working_set": set(),
    }
    n = 0
    for it in im["items"]:
        want = table.get(it["name"])
        if want is None:
            continue
        b = F.real_body(it["path"])
        if b is None:
            continue
        bodies = [b]
        # private helpers of the sqlite module called from the method
        for (_i, t) in cfg_of(b).calls():
            hb = roles.callee_body(F, t)
            if hb is not None and "storage::sqlite" in hb["path"] and hb["path"] != b["path"] and not any(hb["path"].endswith("::" + k) for k in table):
                bodies.append(F.real_body(F.owner(hb["path"])) or hb)
        for bb_ in bodies:
            for (i, sv) in roles.sql_in_body(F, bb_):
                q = " ".join(sv.replace("\\n", " ").split())
                m = re.match(r"^(?:INSERT\s+(?:OR\s+\w+\s+)?INTO|REPLACE\s+INTO|DELETE\s+FROM)\s+(\w+)|^UPDATE\s+(\w+)\s+SET\b", q, re.I)
                if not m:
                    continue
                n += 1
                tbl = (m.group(1) or m.group(2)).lower()
                if tbl in want:
                    R.ok("Q10", "%s modifies %s" % (it["name"], tbl), where(bb_, i))
                else:
                    R.violation("Q10", b["owner_fn"], "modifies-other-table:%s" % tbl, "the SQLite %s also modifies table `%s` (%s): the in-memory %s touches only %s" % (it["name"], tbl, q[:80], it["name"], sorted(want) or "nothing"), where(bb_, i))
    R.floor("Q10", "modifying statements in the SQLite StorageTxn methods", n, 8)
