"""C19 (task mutators / model) M1-M8 and C20 (expiration) E1-E2."""
import re

from tc.facts import call_names, loc
from tc.sym import SymExec, show, show_atom, show_path
from tc.util import agg_sites, bool_origin, calls_matching, cfg_of, const_strs, flow_of, guards_of, is_plumbing, switch_true_edges, where
import r_taskdb

TD = "task::data::TaskData"
TASK = "task::task::Task"


def _has(v, pred, depth=0):
    if depth > 40:
        return False
    try:
        if pred(v):
            return True
    except (IndexError, TypeError):
        pass
    if isinstance(v, tuple):
        return any(_has(x, pred, depth + 1) for x in v if isinstance(x, tuple))
    return False


def _paths(F, R, rule, name, **kw):
    b = F.bodies.get(name)
    if b is None:
        R.missing(rule, name)
        return None, []
    try:
        return b, [p for p in SymExec(b, cfg_of(b), **kw).run() if p.end[0] == "return"]
    except Exception as e:
        R.violation(rule, name, "table-extraction", "cannot extract the path table: %s" % e, where(b))
        return b, []


def rule_M1(F, R):
    R.begin("M1", "single writer: the task map of TaskData is written or mutably borrowed only in TaskData::{create, update, delete}; Operation::Create/Update/Delete values are constructed only there (and in the lossy SyncOp::into_op conversion and derived impls)")
    allowed_ops = re.compile(r"^task::data::TaskData::(create|update|delete)$|^server::op::SyncOp::into_op$|^<operation::Operation as |^operation::_::|Deserialize<'de> for operation::Operation>")
    allowed_map = re.compile(r"^task::data::TaskData::(new|create|update|delete)$|^<task::data::TaskData as ")
    nops = nmap = 0
    for bp, b in sorted(F.bodies.items()):
        owner = F.owner(bp)
        c = cfg_of(b)
        for i in sorted(c.reach):
            for st in c.blocks[i]["s"]:
                if st["k"] != "assign":
                    continue
                r = st["r"]
                if r["k"] == "agg" and r.get("ak") == "adt" and r["adt"] == "operation::Operation" and r["variant"] in ("Create", "Update", "Delete"):
                    nops += 1
                    if not allowed_ops.search(owner):
                        R.violation("M1", owner, "operation-built-outside-TaskData:%s" % r["variant"], "Operation::%s is constructed in %s: operations must come from TaskData::{create,update,delete}, which record the real previous value / the old task" % (r["variant"], owner), where(b, sp=st["sp"]))
                # writes / &mut borrows of the taskmap field
                pl = None
                if r["k"] == "ref" and r["m"] == "mut":
                    pl = r["p"]
                tgt = st["l"]
                for place, why in ((pl, "mutably borrowed"), (tgt, "assigned")):
                    if place is None:
                        continue
                    base_ty = b["locals"][place["l"]]["ty"].replace("&mut ", "").replace("&", "")
                    if base_ty != TD:
                        continue
                    if any(isinstance(e, dict) and e.get("n") == "taskmap" for e in place["p"]):
                        nmap += 1
                        if not allowed_map.search(owner):
                            R.violation("M1", owner, "taskmap-%s" % why.replace(" ", "-"), "the task map of a TaskData is %s in %s: it then changes without a recorded operation" % (why, owner), where(b, sp=st["sp"]))
    R.floor("M1", "Operation constructions examined", nops, 6)
    R.floor("M1", "task-map writes/borrows examined", nmap, 3)
    if not [v for v in R.violations if v["rule"] == "M1"]:
        R.ok("M1", "%d Operation constructions and %d task-map writes, all in TaskData::{create,update,delete} / conversions" % (nops, nmap))


def rule_M2(F, R):
    R.begin("M2", "TaskData::update records the value the property had *before* the change (lookup of the same key precedes insert/remove) and the new value from the argument; delete records the whole old task; create records Create{uuid}")
    b, paths = _paths(F, R, "M2", TD + "::update")
    for p in paths:
        w = where(b)
        gets = [e for e in p.events if e["callee"].endswith("HashMap::<K, V, S, A>::get") or re.search(r"TaskData::get(::<.*>)?$", e["callee"])]
        muts = [e for e in p.events if re.search(r"HashMap::<K, V, S, A>::(insert|remove)$", e["callee"])]
        push = [e for e in p.events if e["callee"].endswith("Vec::<T, A>::push")]
        isome = any(a == ("variant", ("P", "value")) and o == "Some" for (a, o, _bb) in p.atoms)
        if len(gets) > 1 or len(muts) != 1 or len(push) != 1:
            R.violation("M2", b["path"], "update-shape", "TaskData::update is not one lookup, one insert/remove and one recorded operation", w)
            continue
        op = push[0]["args"][1]
        f = dict(op[3]) if op[0] == "A" else {}
        prop = ("P", "property")
        if gets:
            ok_old = _has(f.get("old_value", ("?",)), lambda v: v[0] == "C" and v[1] == gets[0]["id"]) and gets[0]["id"] < muts[0]["id"] and _has(gets[0]["args"], lambda v: v == prop)
        else:
            # HashMap::insert / remove return the value previously stored under the key: that is the old value
            ov = f.get("old_value", ("?",))
            ok_old = (ov[0] == "C" and ov[1] == muts[0]["id"]) and _has(muts[0]["args"], lambda v: v == prop)
        ok_new = f.get("value") == ("P", "value") and f.get("property") == prop
        ok_mut = (muts[0]["callee"].endswith("::insert") if isome else muts[0]["callee"].endswith("::remove")) and _has(muts[0]["args"], lambda v: v == prop)
        ok_uuid = _has(f.get("uuid", ("?",)), lambda v: v[0] == "F" and v[3] == "uuid")
        if not ok_old:
            R.violation("M2", b["path"], "old-value", "the recorded old_value is %s: it must be the map lookup of the same property made before the map is changed (undo would restore a wrong value)" % show(f.get("old_value", ("?", "missing")))[:120], w)
        elif not (ok_new and ok_mut and ok_uuid):
            R.violation("M2", b["path"], "update-fields", "the recorded Update / the map change do not use (uuid, property, value) of the call: %s" % show(op)[:200], w)
        else:
            R.ok("M2", "update(value %s): lookup -> %s -> push Update{old_value = looked-up, value = argument}" % ("Some" if isome else "None", "insert" if isome else "remove"), w)
    b, paths = _paths(F, R, "M2", TD + "::delete")
    for p in paths:
        push = [e for e in p.events if e["callee"].endswith("Vec::<T, A>::push")]
        ok = len(push) == 1 and push[0]["args"][1][0] == "A" and push[0]["args"][1][2] == "Delete"
        if ok:
            f = dict(push[0]["args"][1][3])
            ok = _has(f.get("old_task", ("?",)), lambda v: v[0] in ("C", "F", "P") and _has(v, lambda z: z[0] == "F" and z[3] == "taskmap") or (v[0] == "F" and v[3] == "taskmap")) and _has(f.get("uuid", ("?",)), lambda v: v[0] == "F" and v[3] == "uuid")
        if ok:
            R.ok("M2", "delete: push Delete{uuid, old_task = the task's own map}", where(b))
        else:
            R.violation("M2", b["path"], "delete-old-task", "TaskData::delete does not record the task's properties as old_task (undo could not restore them)", where(b))
    b, paths = _paths(F, R, "M2", TD + "::create")
    for p in paths:
        push = [e for e in p.events if e["callee"].endswith("Vec::<T, A>::push")]
        ok = len(push) == 1 and push[0]["args"][1] == ("A", "operation::Operation", "Create", (("uuid", ("P", "uuid")),)) and ((p.ret[0] == "A" and dict(p.ret[3]).get("uuid") == ("P", "uuid")) or (p.ret[0] == "C" and isinstance(p.ret[2], str) and p.ret[2].endswith("TaskData::new") and p.ret[3] and p.ret[3][0] == ("P", "uuid")))
        if ok:
            R.ok("M2", "create: push Create{uuid}; returns an empty TaskData{uuid}", where(b))
        else:
            R.violation("M2", b["path"], "create", "TaskData::create does not record Create{uuid} for the uuid it returns", where(b))


def mutators(F):
    out = []
    for p, b in F.bodies.items():
        im = b.get("impl") or {}
        if b["kind"] == "AssocFn" and im.get("self") == TASK and not im.get("trait") and b.get("reachable"):
            if any("operation::Operations" in x or "Vec<operation::Operation>" in x for x in (b.get("sig_in") or [])):
                out.append(b)
    return out


def rule_M3(F, R):
    R.begin("M3", "funnel: every public Task method that takes &mut Operations reaches TaskData::update (through set_value), and nothing else changes the held task")
    ms = mutators(F)
    R.floor("M3", "public Task mutators", len(ms), 24)
    for b in sorted(ms, key=lambda x: x["path"]):
        cone = F.reachable_from([b["path"]])
        if TD + "::update" in cone or TD + "::delete" in cone:
            R.ok("M3", "%s -> TaskData::update" % b["name"], where(b))
        else:
            R.violation("M3", b["path"], "no-update", "%s takes &mut Operations but never reaches TaskData::update" % b["name"], where(b))


def _task_flag_field(F):
    """the per-object `already refreshed modified` flag: the only bool field of Task"""
    adt = F.adts.get(TASK)
    if not adt:
        return "updated_modified"
    bools = [f["name"] for f in adt["variants"][0]["fields"] if f["ty"] == "bool"]
    return bools[0] if len(bools) == 1 else "updated_modified"


def rule_M4(F, R):
    R.begin("M4", "`modified` refresh table of set_value: `modified` is written iff the property is not \"modified\" and the per-object flag is unset; the flag is set on every path; then the property itself is updated through TaskData::update")
    b = None
    for p, bb in F.bodies.items():
        if p.startswith(TASK + "::set_value"):
            b = bb
    if b is None:
        R.missing("M4", "Task::set_value")
        return
    paths = [p for p in SymExec(b, cfg_of(b)).run() if p.end[0] == "return"]
    n = 0
    for p in paths:
        n += 1
        w = where(b, p.blocks[-1])
        conds = {a: o for (a, o, _bb) in p.atoms}
        notmod = [o for a, o in conds.items() if a[0] == "call" and re.search(r"PartialEq::(ne|eq)$", a[1]) and _has(a[2], lambda v: v == ("K", '"modified"'))]
        isne = [a[1].endswith("::ne") for a, o in conds.items() if a[0] == "call" and re.search(r"PartialEq::(ne|eq)$", a[1]) and _has(a[2], lambda v: v == ("K", '"modified"'))]
        flagname = _task_flag_field(F)
        flag = [o for a, o in conds.items() if a[0] == "val" and _has(a[1], lambda v: v[0] == "F" and v[3] == flagname)]
        ups = [e for e in p.events if e["callee"].endswith("TaskData::update")]
        mod_up = [e for e in ups if _has(e["args"][1], lambda v: v[0] == "A" and v[2] == "Modified") or e["args"][1] == ("K", '"modified"')]
        main_up = [e for e in ups if e["args"][1] == ("P", "property") and e["args"][2] == ("P", "value")]
        if not notmod:
            R.violation("M4", b["path"], "no-modified-test", "set_value does not test whether the property being set is `modified`", w)
            continue
        is_not_modified = notmod[0] if isne[0] else (not notmod[0])
        should = is_not_modified and flag == [False]
        if bool(mod_up) != should:
            R.violation("M4", b["path"], "modified-refresh:%s/%s" % (is_not_modified, flag), "set_value %s `modified` when property!=modified is %s and the already-updated flag is %s" % ("refreshes" if mod_up else "does not refresh", is_not_modified, flag), w)
            continue
        if len(main_up) != 1 or (mod_up and mod_up[0]["id"] > main_up[0]["id"]):
            R.violation("M4", b["path"], "property-update", "set_value does not update (property, value) exactly once after the modified refresh", w)
            continue
        # flag set at the end
        selfv = p.env.get(1)
        flag_set = selfv is not None and _has(selfv, lambda v: v[0] == "O" and any(_k[1] is not None and x == ("K", "true") for (_k, x) in v[2]))
        if not flag_set:
            R.violation("M4", b["path"], "flag-not-set", "a path through set_value leaves the already-updated flag unset: `modified` would be refreshed again in the same editing session", w)
            continue
        if mod_up:
            val = mod_up[0]["args"][2]
            if not (_has(val, lambda v: v[0] == "C" and v[2].endswith("::timestamp")) and _has(val, lambda v: v[0] == "C" and v[2].endswith("Utc::now"))):
                R.violation("M4", b["path"], "modified-value", "`modified` is not set to the current time as integer seconds", w)
                continue
        R.ok("M4", "property!=modified:%s flag:%s -> %s" % (is_not_modified, flag, "refresh + update" if mod_up else "update"), w)
    R.floor("M4", "set_value paths", n, 6)
    R.extra["exhaustive"] = True


def rule_M5(F, R):
    R.begin("M5", "status/end table of set_status: Pending|Recurring with `end` set -> remove end; Completed|Deleted without `end` -> set end to now; otherwise `end` untouched; then status := storage string")
    b, paths = _paths(F, R, "M5", TASK + "::set_status")
    seen = set()
    for p in paths:
        okret = p.ret[0] == "C" and p.ret[2].endswith("Task::set_value")
        if not okret:
            continue
        st = [o for (a, o, _bb) in p.atoms if a == ("variant", ("P", "status"))]
        has = [o for (a, o, _bb) in p.atoms if a[0] in ("call", "call#") and _has(a, lambda v: v[0] == "A" and v[2] == "End") and any(isinstance(x, str) and x.endswith("TaskData::has") for x in a)]
        ends = [e for e in p.events if e["callee"].endswith("Task::set_timestamp") and _has(e["args"][1], lambda v: v[0] == "A" and v[2] == "End")]
        sv = [e for e in p.events if e["callee"].endswith("Task::set_value")]
        s = st[0] if st else "?"
        if isinstance(s, tuple):
            s = "/".join(s[1])
        h = has[0] if has else None
        seen.add((s, h))
        w = where(b, p.blocks[-1])
        want = None
        if s in ("Pending", "Recurring") and h is True:
            want = "clear"
        elif s in ("Completed", "Deleted") and h is False:
            want = "set"
        got = None
        if ends:
            v = ends[0]["args"][2]
            got = "clear" if v == ("A", "std::option::Option", "None", ()) else ("set" if _has(v, lambda z: z[0] == "C" and z[2].endswith("Utc::now")) else "other")
        # the documented table has two inputs: the new status and whether `end` is present
        extra = [(a, o) for (a, o, _bb) in p.atoms
                 if not (a == ("variant", ("P", "status")))
                 and not (a[0] in ("call", "call#") and any(isinstance(x, str) and x.endswith("TaskData::has") for x in a))
                 and not (a[0] == "variant" and a[1][0] == "C" and re.search(r"Task::(set_timestamp|set_value)$", a[1][2]))]
        if extra:
            R.violation("M5", b["path"], "end-rule-extra-input", "set_status(%s): whether `end` is set or cleared also depends on `%s` = %s; the documented rule looks only at the new status and at whether `end` is present (a completed task without `end` that is deleted must get one)" % (s, show_atom(extra[0][0])[:90], extra[0][1]), w)
            continue
        if s in ("Pending", "Recurring", "Completed", "Deleted") and h is None:
            R.violation("M5", b["path"], "end-not-consulted:%s" % s, "set_status(%s) decides about `end` without looking at whether it is present" % s, w)
            continue
        if got != want:
            R.violation("M5", b["path"], "end:%s/%s" % (s, h), "set_status(%s) with `end` %s: end is %s, the model says %s" % (s, "present" if h else "absent" if h is False else "?", got or "untouched", want or "untouched"), w)
            continue
        if len(sv) != 1 or not (_has(sv[0]["args"][1], lambda z: z[0] == "A" and z[2] == "Status") and _has(sv[0]["args"][2], lambda z: z[0] == "C" and z[2].endswith("Status::to_taskmap") and z[3] == (("P", "status"),))) or (ends and ends[0]["id"] > sv[0]["id"]):
            R.violation("M5", b["path"], "status-write:%s" % s, "set_status does not finish with set_value(status, to_taskmap(status))", w)
            continue
        R.ok("M5", "status=%s end %s -> end %s; status written" % (s, "present" if h else "absent" if h is False else "n/a", got or "untouched"), w)
    need = {("Pending", True), ("Pending", False), ("Recurring", True), ("Recurring", False), ("Completed", True), ("Completed", False), ("Deleted", True), ("Deleted", False)}
    for k in sorted(need - seen):
        R.violation("M5", TASK + "::set_status", "row-missing:%s/%s" % k, "set_status has no row for status %s with end %s" % k, where(b) if b else None)
    R.extra["exhaustive"] = True


def rule_M6(F, R):
    R.begin("M6", "guards: UDA setters/removers reject keys of the data model; tag add/remove reject synthetic tags - the rejection dominates the write")
    import roles
    ikk = roles.task_fn(F, "is_known_key")
    checks = [("add_tag", r"Tag::is_synthetic$", True), ("remove_tag", r"Tag::is_synthetic$", True),
              ("set_user_defined_attribute", "^" + re.escape(ikk or "task::task::Task::is_known_key") + "$", True), ("remove_user_defined_attribute", "^" + re.escape(ikk or "task::task::Task::is_known_key") + "$", True)]
    for name, guard, reject_when in checks:
        b = None
        for p, bb in F.bodies.items():
            if re.match(r"^task::task::Task::%s(::<.*>)?$" % name, p):
                b = bb
        if b is None:
            R.missing("M6", "Task::" + name)
            continue
        c = cfg_of(b)
        fl = flow_of(b)
        writes = calls_matching(c, r"Task::set_value")
        gcalls = calls_matching(c, guard)
        if not writes or not gcalls:
            R.violation("M6", b["path"], "guard-missing", "%s writes without consulting %s" % (name, guard.strip("$").split("::")[-1]), where(b))
            continue
        okw = True
        for (i, t) in writes:
            g_ok = False
            for (s, labs) in guards_of(c, i):
                bo = bool_origin(fl, c.term(s)["o"])
                if bo and bo[0] in {k for k, _t in gcalls}:
                    te = switch_true_edges(c, s, bo[2])
                    on_true = all(l in [e[2] for e in te] for l in labs)
                    if on_true != reject_when:
                        g_ok = True
            if not g_ok:
                okw = False
        if okw:
            R.ok("M6", "%s: write only when %s is false" % (name, guard.strip("$").split("::")[-1]), where(b))
        else:
            R.violation("M6", b["path"], "write-not-guarded", "%s can write although %s holds" % (name, guard.strip("$").split("::")[-1]), where(b))
    # namespaced forms funnel into the legacy forms
    for name, tgt in (("set_uda", "set_user_defined_attribute"), ("remove_uda", "remove_user_defined_attribute"), ("set_legacy_uda", "set_user_defined_attribute"), ("remove_legacy_uda", "remove_user_defined_attribute")):
        bs = [bb for p, bb in F.bodies.items() if re.match(r"^task::task::Task::%s(::<.*>)?$" % name, p)]
        if not bs:
            continue
        cone = F.reachable_from([bs[0]["path"]])
        if any(re.match(r"^task::task::Task::%s(::<.*>)?$" % tgt, q) for q in cone) or (ikk in cone):
            R.ok("M6", "%s goes through the guarded setter" % name, where(bs[0]))
        else:
            R.violation("M6", bs[0]["path"], "unguarded-alias", "%s bypasses the reserved-key guard" % name, where(bs[0]))


def _fmt_prefixes(F, body):
    """string prefixes of format! templates / literals used in a body and its closures"""
    out = set()
    todo = [body]
    for cp in F.closures_in.get(body["path"], ()):
        todo.append(F.bodies[cp])
    for b in todo:
        for bl in b["blocks"]:
            if bl["cleanup"]:
                continue
            for st in bl["s"]:
                if st["k"] == "assign":
                    for key in ("o",):
                        o = st["r"].get(key)
                        if isinstance(o, dict) and "k" in o:
                            out.add(o["k"].get("repr", ""))
            t = bl["t"]
            if t and t["k"] == "call":
                for a in t["args"]:
                    if "k" in a:
                        out.add(a["k"].get("repr", ""))
    pref = set()
    for s in out:
        for m in re.finditer(r"(tag_|annotation_|dep_)", s):
            pref.add(m.group(1))
    return pref


def rule_M7(F, R):
    R.begin("M7", "key vocabulary: writers and readers use the same literal prefixes (tag_, annotation_, dep_); is_known_key reserves all three; timestamps are written as integer seconds and read by integer parse")
    table = {
        "tag_": (["add_tag", "remove_tag"], ["has_tag", "get_tags"]),
        "annotation_": (["add_annotation", "remove_annotation"], ["get_annotations"]),
        "dep_": (["add_dependency", "remove_dependency"], ["get_dependencies"]),
    }
    for pref, (writers, readers) in table.items():
        for name in writers + readers:
            bs = [bb for p, bb in F.bodies.items() if re.match(r"^task::task::Task::%s(::<.*>)?$" % name, p)]
            if not bs:
                R.missing("M7", "Task::" + name)
                continue
            got = _fmt_prefixes(F, bs[0])
            if got == {pref}:
                R.ok("M7", "%s uses %s" % (name, pref), where(bs[0]))
            else:
                R.violation("M7", bs[0]["path"], "prefix", "%s uses key prefix(es) %s; the task model says %s (written and read keys would not meet)" % (name, sorted(got), pref), where(bs[0]))
    import roles
    ik = F.bodies.get(roles.task_fn(F, "is_known_key") or "")
    if ik is None:
        R.missing("M7", "Task::is_known_key")
    else:
        got = _fmt_prefixes(F, ik)
        if got == {"tag_", "annotation_", "dep_"}:
            R.ok("M7", "is_known_key reserves tag_, annotation_, dep_ (and the Prop names)", where(ik))
        else:
            R.violation("M7", ik["path"], "reserved-prefixes", "is_known_key reserves %s" % sorted(got), where(ik))
    dm = F.real_body("replica::Replica::<S>::dependency_map")
    if dm is not None:
        got = _fmt_prefixes(F, dm)
        if "dep_" in got:
            R.ok("M7", "Replica::dependency_map reads dep_ keys", where(dm))
        else:
            R.violation("M7", dm["owner_fn"], "depmap-prefix", "Replica::dependency_map does not read dep_ keys", where(dm))
    # timestamps
    st = F.bodies.get(TASK + "::set_timestamp")
    gt = F.bodies.get(TASK + "::get_timestamp")
    if st is not None and gt is not None:
        def _with_closures(p0):
            out, todo = [], [p0]
            while todo:
                q = todo.pop()
                if q in out:
                    continue
                out.append(q)
                todo += list(F.closures_in.get(q, ()))
            return out
        sc = {n for cp in _with_closures(st["path"]) for (_i, t) in F.calls_in.get(cp, ()) for n in call_names(t)}
        gc = {n for cp in _with_closures(gt["path"]) for (_i, t) in F.calls_in.get(cp, ()) for n in call_names(t)}
        w_ok = any(n.endswith("::timestamp") for n in sc) and any(n.endswith("ToString::to_string") for n in sc)
        r_ok = any(re.search(r"str>::parse$|<impl str>::parse", n) for n in gc) and any(n.endswith("from_timestamp") for n in gc)
        if w_ok and r_ok:
            R.ok("M7", "timestamps: written as timestamp().to_string(), read by integer parse + from_timestamp", where(st))
        else:
            R.violation("M7", TASK + "::set_timestamp", "timestamp-format", "timestamp writer/reader are no longer the integer-seconds pair (writer ok=%s, reader ok=%s)" % (w_ok, r_ok), where(st))


def rule_M8(F, R):
    R.begin("M8", "derived views: has_synthetic_tag maps each SyntheticTag to the matching predicate; the dependency map adds an edge only for a dep_<uuid> key of a working-set task whose target is pending")
    import roles
    b, paths = _paths(F, R, "M8", roles.task_fn(F, "has_synthetic_tag") or (TASK + "::has_synthetic_tag"))
    want = {
        "Waiting": ("is_waiting", False), "Active": ("is_active", False), "Blocked": ("is_blocked", False), "Unblocked": ("is_blocked", True),
        "Blocking": ("is_blocking", False), "Pending": ("Status::Pending", False), "Completed": ("Status::Completed", False), "Deleted": ("Status::Deleted", False),
    }
    seen = set()
    for p in paths:
        v = [o for (a, o, _bb) in p.atoms if a[0] == "variant" and a[1] == ("P", "synth")]
        if not v:
            continue
        k = v[0]
        seen.add(k)
        r = p.ret
        neg = False
        if r[0] == "U" and r[1] == "Not":
            neg = True
            r = r[2]
        w = want.get(k)
        ok = False
        if w and r[0] == "C":
            if w[0].startswith("Status::"):
                ok = r[2].endswith("PartialEq::eq") and _has(r[3], lambda z: z[0] == "C" and z[2].endswith("Task::get_status")) and _has(r[3], lambda z: z[0] == "A" and z[1].endswith("Status") and z[2] == w[0].split("::")[1]) and not neg
            else:
                ok = r[2].endswith("Task::" + w[0]) and neg == w[1]
        if ok:
            R.ok("M8", "+%s <- %s%s" % (k, "!" if neg else "", w[0]), where(b, p.blocks[-1]))
        else:
            R.violation("M8", b["path"], "synthetic:%s" % k, "synthetic tag %s is computed as %s%s" % (k, "!" if neg else "", show(r)[:120]), where(b, p.blocks[-1]))
    adt = F.adts.get("task::tag::SyntheticTag")
    if adt:
        for v in adt["variants"]:
            if v["name"] not in seen:
                R.violation("M8", (b or {}).get("path", TASK + "::has_synthetic_tag"), "synthetic-missing:%s" % v["name"], "no mapping for synthetic tag %s" % v["name"], where(b) if b else None)
    # dependency map: add_dependency guarded by pending status
    dm = F.real_body("replica::Replica::<S>::dependency_map")
    if dm is None:
        R.missing("M8", "Replica::dependency_map")
        return
    c = cfg_of(dm)
    fl = flow_of(dm)
    adds = calls_matching(c, r"DependencyMap::add_dependency$")
    if not adds:
        R.violation("M8", dm["owner_fn"], "no-edges", "dependency_map never adds an edge", where(dm))
    from tc.flow import op_place
    from tc.util import local_def
    for (i, t) in adds:
        gated = False
        for (s_, labs) in guards_of(c, i):
            p_ = op_place(c.term(s_)["o"])
            if p_ is None or c.term(s_).get("ty") != "bool" or "0" in labs:
                continue
            l = p_["l"]
            # every `true` flowing into this flag must be assigned under `Status == Pending` (or copied from the cache of such flags)
            trues = []
            seen_l = set()
            work = [l]
            while work:
                x = work.pop()
                if x in seen_l:
                    continue
                seen_l.add(x)
                for d in fl.defs.get(x, ()):
                    if d[0] != "assign" or d[3]:
                        continue
                    r = d[4]
                    if r["k"] == "use" and "k" in r["o"]:
                        if str(r["o"]["k"].get("val")) == "true":
                            trues.append(d[1])
                    elif r["k"] == "use" and op_place(r["o"]) is not None and not op_place(r["o"])["p"]:
                        work.append(op_place(r["o"])["l"])
            okt = bool(trues)
            for tb in trues:
                ok1 = False
                for (s2, labs2) in guards_of(c, tb):
                    p2 = op_place(c.term(s2)["o"])
                    d2 = local_def(fl, p2["l"]) if p2 else None
                    if d2 and d2[0] == "discr" and (d2[2].get("adt") or "").endswith("task::status::Status"):
                        names = {v: n for v, n in d2[2]["variants"]}
                        if {names.get(x_) for x_ in labs2} == {"Pending"}:
                            ok1 = True
                okt = okt and ok1
            if okt:
                gated = True
        if gated:
            R.ok("M8", "dependency edge only when the target's status is Pending", where(dm, i))
        else:
            R.violation("M8", dm["owner_fn"], "edge-not-pending-gated", "a dependency edge is added without the target's status having matched Status::Pending", where(dm, i))
    pt = calls_matching(c, r"StorageTxn::get_pending_tasks$|TaskDb::<S>::get_pending_tasks$|TaskDb::<S>::working_set$|Replica::<S>::pending_task|Replica::<S>::working_set$")
    if pt:
        R.ok("M8", "dependency map iterates the working-set (pending) tasks", where(dm, pt[0][0]))
    else:
        R.violation("M8", dm["owner_fn"], "not-working-set", "dependency_map does not iterate the working-set tasks", where(dm))


# ---------------------------------------------------------------------------------------
# C20

def rule_E(F, R):
    R.begin("E1", "expiration predicate: a task is selected iff status == Deleted (storage string) and `modified` parses as an integer date strictly earlier than now - 180 days; every other outcome keeps the task. E2: selected tasks are purged through TaskData::delete and committed with commit_operations")
    b = F.real_body("replica::Replica::<S>::expire_tasks")
    if b is None:
        R.missing("E1", "Replica::expire_tasks")
        return
    subj = b["owner_fn"]
    c = cfg_of(b)
    # threshold: now - Duration::days(180)
    days = [(i, t) for i, t in c.calls() if re.search(r"TimeDelta::(days|try_days|weeks|hours|seconds|minutes)$|Duration::(days|weeks|hours)$", " ".join(call_names(t)))]
    okd = False
    for (i, t) in days:
        nm = " ".join(call_names(t))
        a = t["args"][0]
        val = F.const_value(a["k"]) if "k" in a else None
        if val is not None:
            val = re.sub(r"_[ui]\w+$", "", str(val))
        if re.search(r"::days$", nm) and str(val) == "180":
            okd = True
        else:
            R.violation("E1", subj, "retention", "the expiration age is %s(%s); documented: 180 days" % (nm.split("::")[-1], val), where(b, i))
    if not days:
        R.violation("E1", subj, "retention", "no `Duration::days(180)` in expire_tasks", where(b))
    elif okd:
        R.ok("E1", "threshold uses Duration::days(180)", where(b, days[0][0]))
    sub = [(i, t) for i, t in c.calls() if any(n.endswith("ops::Sub::sub") for n in call_names(t))]
    fl = flow_of(b)
    oks = False
    for (i, t) in sub:
        s0 = fl.slice_operand(t["args"][0])
        s1 = fl.slice_operand(t["args"][1])
        if s0.has_call(r"Utc::now$") and any(bb_ in {k for k, _t in days} for bb_ in s1.calls):
            oks = True
    if oks:
        R.ok("E1", "threshold = Utc::now() - Duration::days(180)", where(b))
    else:
        R.violation("E1", subj, "threshold-expression", "the threshold is not `now - 180 days`", where(b))
    # the predicate closures: collect comparison and status literal through the closure tree
    closures = []
    todo = list(F.closures_in.get(b["path"], ()))
    while todo:
        cp = todo.pop()
        if cp in closures or F.bodies[cp].get("coroutine"):
            continue
        closures.append(cp)
        todo += list(F.closures_in.get(cp, ()))
    # name(s) of the local holding `now - days(180)` in the parent (captured by the closures)
    thr_names = set()
    for (i, t) in sub:
        nm = b["locals"][t["dest"]["l"]].get("name")
        if nm:
            thr_names.add(nm)
        for bl in c.blocks:
            for st in bl["s"]:
                if st["k"] == "assign" and st["r"]["k"] == "use" and (st["r"]["o"].get("m") or st["r"]["o"].get("c") or {}).get("l") == t["dest"]["l"]:
                    n2 = b["locals"][st["l"]["l"]].get("name")
                    if n2:
                        thr_names.add(n2)
    cmp_ok = None
    status_pol = []
    status_ok = False
    parse_ok = False
    modified_ok = False
    # the predicate may sit in closures (iterator chain) or in the function itself (a loop)
    for cb in [F.bodies[cp] for cp in closures] + [b]:
        try:
            paths = SymExec(cb, cfg_of(cb), max_paths=4000).run()
        except Exception:
            continue
        for p in paths:
            for e in p.events:
                nm = e["callee"]
                if re.search(r"PartialOrd::(lt|le|gt|ge)$", nm):
                    a0, a1 = e["args"]
                    # the threshold: captured by a predicate closure, or (predicate in the function itself) the
                    # result of the `now - days` subtraction
                    is_thr = lambda z: (z[0] == "P" and z[1] in thr_names) or (z[0] == "C" and len(z) > 2 and isinstance(z[2], str) and z[2].endswith("ops::Sub::sub"))
                    thr0 = _has(a0, is_thr)
                    thr1 = _has(a1, is_thr)
                    rel = nm.split("::")[-1]
                    if thr1 and not thr0:
                        cmp_ok = (rel == "lt", "date %s threshold" % rel)
                    elif thr0 and not thr1:
                        cmp_ok = (rel == "gt", "threshold %s date" % rel)
                is_status_cmp = re.search(r"PartialEq::(eq|ne)$", nm) and (_has(e["args"], lambda z: z[0] == "C" and z[2].endswith("Status::to_taskmap") and _has(z, lambda y: y[0] == "A" and y[2] == "Deleted")) or _has(e["args"], lambda z: z == ("K", '"deleted"')) or _has(e["args"], lambda z: z[0] in ("P", "U") and "deleted" in str(z).lower()))
                if is_status_cmp:
                    positive = nm.endswith("::eq")
                    cmpv = ("C", e["id"])
                    # (a) the comparison is what the predicate closure returns
                    if p.ret and p.ret[0] == "C" and p.ret[1] == e["id"]:
                        status_pol.append(positive)
                    elif p.ret and p.ret[0] == "U" and p.ret[1] == "Not" and _has(p.ret, lambda z: z[0] == "C" and z[1] == e["id"]):
                        status_pol.append(not positive)
                    else:
                        # (b) the path goes on to delete the task: under which outcome of the comparison?
                        deletes = [d for d in p.events if d["callee"].endswith("TaskData::delete") and d["id"] > e["id"]]
                        outs = [o for (a, o, _bb) in p.atoms if _has(a, lambda z: z[0] == "C" and z[1] == e["id"])]
                        if deletes and outs:
                            status_pol.append(outs[-1] is positive)
                    status_ok = True
                if re.search(r"str>::parse$|<impl str>::parse", nm):
                    parse_ok = True
                if nm.endswith("::get") and _has(e["args"], lambda z: z == ("K", '"modified"')):
                    modified_ok = True
                if nm.endswith("::get") and _has(e["args"], lambda z: z == ("K", '"status"')):
                    pass
            # upvar-compared status (captured `deleted` string)
            for (a, o, _bb) in p.atoms:
                if a[0] == "call" and re.search(r"PartialEq::(eq|ne)$", a[1]) and _has(a[2], lambda z: z[0] == "P" and "deleted" in str(z[1]).lower()):
                    status_ok = True
    if cmp_ok is None:
        R.violation("E1", subj, "no-age-comparison", "no comparison between the task's modification date and the threshold", where(b))
    elif not cmp_ok[0]:
        R.violation("E1", subj, "age-comparison", "the age test is `%s`; a task must be *older* than the threshold to expire (strictly)" % cmp_ok[1], where(b))
    else:
        R.ok("E1", "age test: %s (strict)" % cmp_ok[1], where(b))
    # the status literal: either inline in a closure or captured from Status::Deleted.to_taskmap() in the parent
    if not status_ok:
        try:
            for p in SymExec(b, c, max_paths=4000).run():
                for e in p.events:
                    if e["callee"].endswith("Status::to_taskmap") and _has(e["args"], lambda z: z[0] == "A" and z[2] == "Deleted"):
                        status_ok = "parent"
                if status_ok:
                    break
        except Exception:
            pass
    others = set()
    for e_b in [b] + [F.bodies[cp] for cp in closures]:
        for bl in e_b["blocks"]:
            for st in bl["s"]:
                if st["k"] == "assign" and st["r"]["k"] == "agg" and st["r"].get("adt", "").endswith("task::status::Status"):
                    others.add(st["r"]["variant"])
    if status_ok and status_pol and not all(status_pol):
        R.violation("E1", subj, "status-test", "expire_tasks selects the tasks whose status is NOT deleted", where(b))
    elif status_ok and others <= {"Deleted"}:
        R.ok("E1", "status test against Status::Deleted's storage string", where(b))
    else:
        R.violation("E1", subj, "status-test", "expire_tasks selects on status %s; documented: deleted" % (sorted(others) or "?"), where(b))
    if parse_ok and modified_ok:
        R.ok("E1", "`modified` read and parsed as an integer; unparseable -> kept", where(b))
    else:
        R.violation("E1", subj, "modified-parse", "expire_tasks does not read and parse the `modified` property (modified=%s parse=%s)" % (modified_ok, parse_ok), where(b))
    # E2
    cone = F.reachable_from([b["path"]])
    if any(q.startswith(TD + "::delete") or q == TD + "::delete" for q in cone) or any(q.endswith("Task::into_task_data") for q in cone) and TD + "::delete" in cone:
        R.ok("E2", "selected tasks are purged through TaskData::delete", where(b))
    else:
        R.violation("E2", subj, "not-through-TaskData::delete", "expired tasks are not deleted through TaskData::delete (the recorded operation would not carry the old task / would not be an ordinary deletion)", where(b))
    cm = calls_matching(c, r"Replica::<S>::commit_operations$")
    if cm:
        R.ok("E2", "the purge is committed with commit_operations (ordinary, synchronised operations)", where(b, cm[0][0]))
    else:
        R.violation("E2", subj, "not-committed", "the purge is not committed through commit_operations", where(b))


def rule_M9(F, R):
    R.begin("M9", "every Replica method that can change stored tasks drops the cached dependency map on the paths where it did (commit, undo, sync): otherwise BLOCKED/UNBLOCKED/BLOCKING and the dependency map keep reflecting the old statuses")
    writers = {"storage::StorageTxn::set_task", "storage::StorageTxn::create_task", "storage::StorageTxn::delete_task"}
    cg = F.callgraph()

    def reaches_task_writer(path):
        seen = F.reachable_from([path])
        for q in seen:
            for (_i, t) in F.calls_in.get(q, ()):
                if any(n in writers for n in call_names(t)):
                    return True
        return False

    methods = {}
    for p, b in F.bodies.items():
        im = b.get("impl") or {}
        if b["kind"] == "AssocFn" and im.get("self", "").startswith("replica::Replica<") and not im.get("trait"):
            methods[p] = b
    ok_methods = set()
    pending = []
    n = 0
    for p, b in sorted(methods.items()):
        if not reaches_task_writer(p):
            continue
        n += 1
        pending.append((p, b))
    # iterate to a fixed point so delegation to an already-verified method is accepted
    results = {}
    for _round in range(3):
        for (p, b) in pending:
            rb = F.real_body(p)
            c = cfg_of(rb)
            try:
                paths = [q for q in SymExec(rb, c, max_paths=4000).run() if q.end[0] == "return"]
            except Exception as e:
                results[p] = ("error", str(e), None)
                continue
            bad = None
            for q in paths:
                if not (q.ret and q.ret[0] == "A" and q.ret[2] == "Ok"):
                    continue
                wev = []
                for e in q.events:
                    tgt = None
                    for nm in e["names"]:
                        if nm in F.bodies:
                            tgt = nm
                    if tgt is None:
                        continue
                    if re.sub(r"::<[^>]*>", "", tgt) in {re.sub(r"::<[^>]*>", "", m) for m in ok_methods}:
                        continue
                    if tgt.startswith("replica::Replica::<S>::") and tgt in methods and tgt in {m for m in ok_methods}:
                        continue
                    if reaches_task_writer(tgt):
                        wev.append(e)
                if not wev:
                    continue
                # nothing-changed outcome: the writer's own result was tested false
                wid = wev[-1]["id"]
                if any(a[0] == "val" and _has(a[1], lambda z: z[0] == "C" and z[1] == wid) and o is False for (a, o, _bb) in q.atoms):
                    continue
                # an assignment `<self>.depmap = None` after the writer call, in path order
                pos = q.blocks.index(wev[-1]["bb"]) if wev[-1]["bb"] in q.blocks else 0
                cleared = False
                for bb_ in q.blocks[pos:]:
                    for st in c.blocks[bb_]["s"]:
                        if st["k"] == "assign" and any(isinstance(e_, dict) and e_.get("n") == "depmap" for e_ in st["l"]["p"]):
                            r_ = st["r"]
                            if r_["k"] == "agg" and r_.get("variant") == "None":
                                cleared = True
                            elif r_["k"] == "use":
                                from tc.flow import op_place as _opp
                                from tc.util import flow_of as _fo, local_def as _ld
                                pl_ = _opp(r_["o"])
                                d_ = _ld(_fo(rb), pl_["l"]) if pl_ is not None and not pl_["p"] else None
                                if d_ and d_[0] == "rv" and d_[1]["k"] == "agg" and d_[1].get("variant") == "None":
                                    cleared = True
                if not cleared:
                    bad = wev[-1]
                    break
            results[p] = ("bad", bad, rb) if bad else ("ok", None, rb)
            if not bad:
                ok_methods.add(p)
    for p, (st, info, rb) in sorted(results.items()):
        short = p.split("::")[-1]
        if st == "ok":
            R.ok("M9", "%s drops the cached dependency map after changing tasks (or delegates to a method that does)" % short, where(rb))
        elif st == "error":
            R.violation("M9", p, "table-extraction", "cannot extract paths of %s: %s" % (short, info), None)
        else:
            R.violation("M9", p, "stale-dependency-map", "%s changes stored tasks through %s at %s and can return Ok with the cached dependency map kept: tasks loaded afterwards report BLOCKED/UNBLOCKED/BLOCKING from the old state" % (short, info["callee"].split("::")[-1], loc(info["sp"])), where(rb, info["bb"]))
    R.floor("M9", "Replica methods that can change stored tasks", n, 4)


def rule_M10(F, R):
    R.begin("M10", "the working set is sparse (index 0 unused, gaps after a rebuild without renumbering): a scan that looks entries up by index must run to largest_index(), not to len() (the number of occupied slots); with k gaps a scan bounded by len() never sees the k highest entries")
    n = 0
    for p, b in sorted(F.bodies.items()):
        if p.startswith("workingset::") or not b.get("blocks"):
            continue
        calls = F.calls_in.get(p, ())
        if not any(any(x.endswith("WorkingSet::by_index") for x in call_names(t)) for (_i, t) in calls):
            continue
        rb = b
        c = cfg_of(rb)
        fl = flow_of(rb)
        for (i, t) in c.calls():
            if not any(x.endswith("WorkingSet::by_index") for x in call_names(t)):
                continue
            n += 1
            sl = fl.slice_operand(t["args"][1])
            bounds = {x for tt in sl.calls.values() for x in call_names(tt) if re.search(r"WorkingSet::(len|largest_index|iter)$", x)}
            if any(x.endswith("WorkingSet::len") for x in bounds):
                R.violation("M10", F.owner(p), "index-scan-bounded-by-len", "working-set entries are looked up by an index that runs to WorkingSet::len(): after a rebuild that left k gaps, the k highest entries are never visited (their dependencies and statuses are missing from what is computed)", where(rb, i))
            else:
                R.ok("M10", "by_index lookup not bounded by len() (%s)" % (", ".join(sorted(x.split("::")[-1] for x in bounds)) or "index supplied by the caller"), where(rb, i))
    # a scan written with WorkingSet::iter() visits every occupied slot by construction
    niter = 0
    for p, b in sorted(F.bodies.items()):
        if p.startswith("workingset::") or not b.get("blocks"):
            continue
        for (i, t) in F.calls_in.get(p, ()):
            if any(x.endswith("WorkingSet::iter") for x in call_names(t)):
                niter += 1
                R.ok("M10", "working-set scan by iter()", where(b, i))
    R.floor("M10", "working-set scans outside the workingset module (by_index lookups + iter() walks)", n + niter, 1)


def rule_M11(F, R):
    R.begin("M11", "user-defined attributes read back as written: the stored key is `namespace.key` joined at one dot, and the reader splits it at the FIRST dot (docs/src/tasks.md). A split at the last dot returns (`github.issue`, `id`) for what was written as (`github`, `issue.id`)")
    cands = [p for p, b in F.bodies.items() if p.startswith("task::task::") and b["kind"] == "Fn" and (b.get("sig_in") or []) == ["&str"] and re.sub(r"'\w+ ", "", b.get("sig_out") or "") == "(&str, &str)"]
    if len(cands) != 1:
        R.missing("M11", "the function &str -> (&str, &str) that splits a stored attribute key", "found %d" % len(cands))
        return
    b = F.bodies[cands[0]]
    names = [x for (_i, t) in F.calls_in.get(cands[0], ()) for x in call_names(t)]
    first = [x for x in names if re.search(r"<impl str>::(splitn|split_once|find|split)$", x)]
    last = [x for x in names if re.search(r"<impl str>::(rsplitn|rsplit_once|rfind|rsplit|rsplit_terminator)$", x)]
    if last:
        R.violation("M11", cands[0], "uda-split-at-last-dot", "the attribute key is split with %s: a key part containing a dot moves into the namespace when read back" % last[0].split("::")[-1], where(b))
    elif not first:
        R.violation("M11", cands[0], "uda-split-unrecognised", "cannot recognise how the attribute key is split (expected splitn(2, '.') / split_once('.') / find('.'))", where(b))
    else:
        c = cfg_of(b)
        fl = flow_of(b)
        ok = True
        for (i, t) in c.calls():
            if any(x.endswith("<impl str>::splitn") for x in call_names(t)):
                ks = const_strs(fl.slice_operand(t["args"][1]), F) if ("c" in t["args"][1] or "m" in t["args"][1]) else {str(t["args"][1].get("k", {}).get("repr", ""))}
                if not any(str(k).strip().startswith("2") for k in ks):
                    ok = False
        if ok:
            R.ok("M11", "attribute keys are split at the first dot (%s)" % first[0].split("::")[-1], where(b))
        else:
            R.violation("M11", cands[0], "uda-splitn-count", "splitn is not called with 2: a key part containing a dot is cut", where(b))
