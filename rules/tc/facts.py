"""Facts loader and indices over the tcfacts JSON-lines dump.

Nothing in here executes code of the analysed crate: it reads the compiler's resolved,
built MIR (pre-coroutine-transform) and crate tables written by engine/tcfacts.
"""
import json
import os
import pickle
import re
from collections import defaultdict


class Facts:
    def __init__(self, path):
        self.path = path
        self.meta = None
        self.end = None
        self.bodies = {}
        self.adts = {}
        self.traits = {}
        self.impls = []
        self.consts = {}
        pk = path + ".pickle"
        recs = None
        if os.path.exists(pk) and os.path.getmtime(pk) >= os.path.getmtime(path):
            try:
                with open(pk, "rb") as f:
                    recs = pickle.load(f)
            except Exception:
                recs = None
        if recs is None:
            recs = []
            with open(path) as f:
                for line in f:
                    line = line.strip()
                    if line:
                        recs.append(json.loads(line))
            try:
                tmp = pk + ".tmp.%d" % os.getpid()
                with open(tmp, "wb") as f:
                    pickle.dump(recs, f, protocol=pickle.HIGHEST_PROTOCOL)
                os.replace(tmp, pk)
            except Exception:
                pass
        for r in recs:
            t = r["t"]
            if t == "body":
                self.bodies[r["path"]] = r
            elif t == "adt":
                self.adts[r["path"]] = r
            elif t == "trait":
                self.traits[r["path"]] = r
            elif t == "impl":
                self.impls.append(r)
            elif t == "const":
                self.consts[r["path"]] = r
            elif t == "meta":
                self.meta = r
            elif t == "end":
                self.end = r
        if self.meta is None or self.end is None:
            raise RuntimeError("facts file incomplete: %s" % path)
        self._index()

    # ------------------------------------------------------------------
    def _index(self):
        # trait method -> impl method paths
        self.trait_impls = defaultdict(list)  # trait item path -> [impl item path]
        self.impls_of_trait = defaultdict(list)  # trait path -> [impl rec]
        for im in self.impls:
            tr = im.get("trait")
            if tr:
                self.impls_of_trait[tr].append(im)
            for it in im["items"]:
                ti = it.get("trait_item")
                if ti and it.get("fn"):
                    self.trait_impls[ti].append(it["path"])
        # trait default methods
        self.trait_defaults = {}
        for tp, tr in self.traits.items():
            for m in tr["methods"]:
                if m["has_default"]:
                    self.trait_defaults[m["path"]] = m["path"]
        # call sites
        self.callsites = defaultdict(list)  # callee name -> [(body path, bb)]
        self.calls_in = defaultdict(list)  # body path -> [(bb, term)]
        self.closures_in = defaultdict(set)  # body path -> closure/coroutine def paths built
        self.fnitems_in = defaultdict(set)  # body path -> fn items used as values
        for bp, b in self.bodies.items():
            for i, bl in enumerate(b["blocks"]):
                if bl["cleanup"]:
                    continue
                for s in bl["s"]:
                    if s["k"] == "assign" and s["r"]["k"] == "agg" and s["r"].get("ak") in (
                        "closure",
                        "coroutine",
                        "coroutineclosure",
                    ):
                        self.closures_in[bp].add(s["r"]["def"])
                    # a function item used as a value (`.filter_map(Tag::from_stored)`) is called by whoever
                    # receives it: remember it as a may-call target of this body
                    if s["k"] == "assign":
                        r_ = s["r"]
                        for o_ in [r_.get(k_) for k_ in ("o", "a", "b")] + list(r_.get("ops", []) or []):
                            if isinstance(o_, dict) and isinstance(o_.get("k"), dict) and o_["k"].get("fn"):
                                self.fnitems_in[bp].add(o_["k"]["fn"])
                t = bl["t"]
                if t and t["k"] == "call":
                    for o_ in t.get("args", ()) or ():
                        if isinstance(o_, dict) and isinstance(o_.get("k"), dict) and o_["k"].get("fn"):
                            self.fnitems_in[bp].add(o_["k"]["fn"])
                    self.calls_in[bp].append((i, t))
                    for n in call_names(t):
                        self.callsites[n].append((bp, i))
        self._cg = None

    # ------------------------------------------------------------------
    def real_body(self, path):
        """The body that holds the user's code of fn `path`: for async fns (and async_trait
        methods) the coroutine body constructed by the fn."""
        b = self.bodies.get(path)
        if b is None:
            return None
        cor = [c for c in self.closures_in.get(path, ()) if self.bodies.get(c, {}).get("coroutine")]
        if len(cor) == 1 and len([x for x in b["blocks"] if not x["cleanup"]]) <= 12:
            return self.bodies[cor[0]]
        return b

    def owner(self, path):
        """Outermost fn that lexically contains body `path`."""
        b = self.bodies[path]
        return b.get("owner_fn") or path

    def callgraph(self):
        """crate-local may-call graph: body path -> set(body path).  Edges: resolved static
        calls; trait-method calls (dyn or generic) to every impl of that trait item in the
        crate and to the trait's default body; closures/coroutines constructed in the body."""
        if self._cg is not None:
            return self._cg
        cg = defaultdict(set)
        for bp in self.bodies:
            for c in self.closures_in.get(bp, ()):
                if c in self.bodies:
                    cg[bp].add(c)
            for (_i, t) in self.calls_in.get(bp, ()):
                for tgt in self.call_targets(t):
                    cg[bp].add(tgt)
            for fnname in self.fnitems_in.get(bp, ()):
                if fnname in self.bodies:
                    cg[bp].add(fnname)
                else:
                    nn = re.sub(r"::<[^>]*>", "", fnname)
                    for q in self._norm_index().get(nn, ()):
                        cg[bp].add(q)
        self._cg = cg
        return cg

    def _norm_index(self):
        if getattr(self, "_nidx", None) is None:
            idx = defaultdict(list)
            for q in self.bodies:
                idx[re.sub(r"::<[^>]*>", "", q)].append(q)
            self._nidx = idx
        return self._nidx

    def call_targets(self, t):
        out = set()
        callee = t.get("callee")
        res = t.get("resolved")
        if res and res in self.bodies:
            out.add(res)
        elif callee:
            if callee in self.bodies and not t.get("virtual") and not (
                callee in self.trait_impls and not res
            ):
                out.add(callee)
            if callee in self.trait_impls and (t.get("virtual") or not res):
                for p in self.trait_impls[callee]:
                    if p in self.bodies:
                        out.add(p)
                if callee in self.bodies:  # default body
                    out.add(callee)
        for c in t.get("closures", ()):
            if c in self.bodies:
                out.add(c)
        return out

    def reachable_from(self, roots, stop=lambda p: False):
        cg = self.callgraph()
        seen = {}
        work = []
        for r in roots:
            if r in self.bodies and r not in seen:
                seen[r] = None
                work.append(r)
        while work:
            p = work.pop()
            if stop(p):
                continue
            for q in sorted(cg.get(p, ())):
                if q not in seen:
                    seen[q] = p
                    work.append(q)
        return seen  # node -> predecessor

    @staticmethod
    def chain(seen, node):
        out = [node]
        while seen.get(node) is not None:
            node = seen[node]
            out.append(node)
        return list(reversed(out))

    def const_value(self, k):
        """Evaluated value string of a constant operand `k` (the dict under key 'k')."""
        if "val" in k:
            return k["val"]
        if "named" in k:
            c = self.consts.get(k["named"])
            if c is not None:
                return c.get("scalar", c.get("val"))
        return None


def call_names(t):
    names = []
    for key in ("callee", "resolved"):
        v = t.get(key)
        if v and v not in names:
            names.append(v)
    return names


def is_call_to(t, *names):
    if not t or t["k"] != "call":
        return False
    cn = call_names(t)
    return any(n in cn for n in names)


def call_matches(t, pattern):
    """regex search over the callee / resolved names"""
    if not t or t["k"] != "call":
        return False
    return any(re.search(pattern, n) for n in call_names(t))


def loc(sp):
    if not sp:
        return "?"
    return "%s:%s" % (sp.get("f", "?").replace("/repo/", ""), sp.get("l", "?"))


# ----------------------------------------------------------------------
# pretty printer (debugging / explain)

def fmt_place(p, body=None):
    s = "_%d" % p["l"]
    if body is not None:
        nm = body["locals"][p["l"]].get("name")
        if nm:
            s = "%s#%d" % (nm, p["l"])
    for e in p["p"]:
        if e == "deref":
            s = "(*%s)" % s
        elif "f" in e:
            s = "%s.%s" % (s, e["n"] if e.get("n") is not None else e["f"])
        elif "dc" in e:
            s = "(%s as %s)" % (s, e["dc"])
        elif "ix" in e:
            s = "%s[_%d]" % (s, e["ix"])
        elif "ci" in e:
            s = "%s[ci%s]" % (s, e["ci"])
        elif "sub" in e:
            s = "%s[sub%s]" % (s, e["sub"])
        else:
            s = "%s.?%s" % (s, e)
    return s


def fmt_op(o, body=None):
    if "c" in o:
        return "copy " + fmt_place(o["c"], body)
    if "m" in o:
        return "move " + fmt_place(o["m"], body)
    if "k" in o:
        k = o["k"]
        return k.get("repr", "const?")
    return str(o)


def fmt_rv(r, body=None):
    k = r["k"]
    if k == "use":
        return fmt_op(r["o"], body)
    if k == "ref":
        return "&%s %s" % (r["m"], fmt_place(r["p"], body))
    if k == "rawptr":
        return "&raw %s %s" % (r["m"], fmt_place(r["p"], body))
    if k == "cast":
        return "%s as %s (%s)" % (fmt_op(r["o"], body), r["ty"], r["ck"])
    if k == "bin":
        return "%s(%s, %s)" % (r["op"], fmt_op(r["a"], body), fmt_op(r["b"], body))
    if k == "un":
        return "%s(%s)" % (r["op"], fmt_op(r["o"], body))
    if k == "discr":
        return "discriminant(%s)" % fmt_place(r["p"], body)
    if k == "agg":
        ak = r.get("ak")
        ops = ", ".join(fmt_op(o, body) for o in r["ops"])
        if ak == "adt":
            fs = r.get("fields", [])
            if fs and len(fs) == len(r["ops"]):
                ops = ", ".join("%s: %s" % (f, fmt_op(o, body)) for f, o in zip(fs, r["ops"]))
            return "%s::%s{%s}" % (r["adt"], r["variant"], ops)
        if ak in ("closure", "coroutine", "coroutineclosure"):
            return "%s[%s](%s)" % (ak, r["def"], ops)
        return "%s(%s)" % (ak, ops)
    if k == "copyforderef":
        return "deref_copy " + fmt_place(r["p"], body)
    if k == "repeat":
        return "[%s; %s]" % (fmt_op(r["o"], body), r["n"])
    return r.get("dbg", str(r))


def fmt_term(t, body=None):
    if t is None:
        return "<none>"
    k = t["k"]
    if k == "call":
        fn = t.get("resolved") or t.get("callee") or ("(" + fmt_op(t["fnop"], body) + ")")
        if t.get("resolved") and t.get("callee") and t["resolved"] != t["callee"]:
            fn = "%s [=%s]" % (t["callee"], t["resolved"])
        return "%s = %s(%s) -> bb%s" % (
            fmt_place(t["dest"], body),
            fn,
            ", ".join(fmt_op(a, body) for a in t["args"]),
            t["t"],
        )
    if k == "switch":
        return "switch(%s) %s else bb%s" % (
            fmt_op(t["o"], body),
            " ".join("%s:bb%s" % (v, b) for v, b in t["targets"]),
            t["otherwise"],
        )
    if k in ("goto", "falseedge", "falseunwind"):
        extra = " imag bb%s" % t["imag"] if k == "falseedge" else ""
        return "%s bb%s%s" % (k, t["t"], extra)
    if k == "drop":
        return "drop(%s) -> bb%s" % (fmt_place(t["p"], body), t["t"])
    if k == "assert":
        return "assert(%s == %s, %s) -> bb%s" % (fmt_op(t["cond"], body), t["expected"], t["msg"], t["t"])
    if k == "yield":
        return "yield(%s) -> bb%s" % (fmt_op(t["value"], body), t["t"])
    return k


def dump_body(b, show_cleanup=False, show_storage=False):
    lines = []
    lines.append("body %s  [%s]  %s" % (b["path"], b["kind"], loc(b["sp"])))
    for i, l in enumerate(b["locals"]):
        lines.append("  let _%d: %s%s" % (i, l["ty"], "  // %s" % l["name"] if l.get("name") else ""))
    for i, bl in enumerate(b["blocks"]):
        if bl["cleanup"] and not show_cleanup:
            continue
        lines.append("bb%d:%s" % (i, " (cleanup)" if bl["cleanup"] else ""))
        for s in bl["s"]:
            if s["k"] in ("live", "dead"):
                if show_storage:
                    lines.append("    %s _%d" % (s["k"], s["local"]))
                continue
            if s["k"] == "assign":
                lines.append(
                    "    %s = %s    // L%s%s"
                    % (
                        fmt_place(s["l"], b),
                        fmt_rv(s["r"], b),
                        s["sp"].get("l"),
                        " x=" + s["sp"]["x"] if "x" in s["sp"] else "",
                    )
                )
            else:
                lines.append("    %s" % json.dumps({k: v for k, v in s.items() if k != "sp"}))
        t = bl["t"]
        lines.append(
            "    => %s    // L%s%s"
            % (fmt_term(t, b), t["sp"].get("l") if t else "?", " x=" + t["sp"]["x"] if t and "x" in t["sp"] else "")
        )
    return "\n".join(lines)
