"""Obligation / violation bookkeeping, evidence files, known findings."""
import json
import os
import time

VERIF = os.path.dirname(os.path.dirname(os.path.dirname(os.path.abspath(__file__))))
EVIDENCE = os.environ.get("TCVERIF_EVIDENCE", os.path.join(VERIF, "evidence"))
KNOWN = os.path.join(VERIF, "known-findings.json")


class Report:
    def __init__(self, prop, tier, seed):
        self.prop = prop
        self.tier = tier
        self.seed = seed
        self.t0 = time.time()
        self.obligations = []
        self.violations = []
        self.infos = []
        self.floors = []
        self.counters = {}
        self.rules_run = []
        self.current_rule = None
        self.extra = {}

    # -- recording -----------------------------------------------------
    def begin(self, rule, text):
        self.current_rule = rule
        self.rules_run.append({"rule": rule, "text": text})

    def ok(self, rule, instance, where=None, note=None):
        o = {"rule": rule, "instance": instance, "ok": True}
        if where:
            o["where"] = where
        if note:
            o["note"] = note
        self.obligations.append(o)

    def violation(self, rule, subject, construct, msg, where=None, details=None):
        key = "%s|%s|%s" % (rule, subject, construct)
        for v in self.violations:
            if v["key"] == key:
                return
        v = {"rule": rule, "key": key, "subject": subject, "construct": construct, "message": msg}
        if where:
            v["where"] = where
        if details is not None:
            v["details"] = details
        self.violations.append(v)
        self.obligations.append({"rule": rule, "instance": "%s: %s" % (subject, construct), "ok": False, "where": where})

    def missing(self, rule, role, detail=""):
        self.violation(
            rule,
            "anchor-missing",
            role,
            "rule %s could not find its subject (%s)%s; failing closed rather than passing vacuously"
            % (rule, role, (": " + detail) if detail else ""),
        )

    def floor(self, rule, what, found, minimum):
        self.floors.append({"rule": rule, "what": what, "found": found, "floor": minimum})
        if found < minimum:
            self.violation(
                rule,
                "anchor-missing",
                "%s<%d" % (what, minimum),
                "rule %s found %d instance(s) of %s, fewer than the %d counted by hand on the reference tree"
                % (rule, found, what, minimum),
            )
            return False
        return True

    def info(self, rule, text):
        self.infos.append({"rule": rule, "text": text})

    def count(self, name, n=1):
        self.counters[name] = self.counters.get(name, 0) + n

    # -- finishing -----------------------------------------------------
    def finish(self, explanation, assumptions, facts_info, not_decided=None):
        known = load_known()
        os.makedirs(os.path.join(EVIDENCE, "violations"), exist_ok=True)
        # remove stale replay files of this property
        vd = os.path.join(EVIDENCE, "violations")
        for f in os.listdir(vd):
            if f.startswith(self.prop + "-"):
                os.unlink(os.path.join(vd, f))
        lines = []
        new = []
        known_hit = []
        for v in self.violations:
            k = [e for e in known if e.get("property") == self.prop and e.get("key") == v["key"] and e.get("status") == "known"]
            if k:
                known_hit.append((v, k[0]))
            else:
                new.append(v)
        for v, e in known_hit:
            lines.append("KNOWN-FINDING: property=%s %s [%s]" % (self.prop, e.get("what_fails", v["message"]), v["key"]))
        n = 0
        for v in new:
            n += 1
            rp = os.path.join(vd, "%s-%d.json" % (self.prop, n))
            with open(rp, "w") as f:
                json.dump({"property": self.prop, "tier": self.tier, "facts": facts_info, **v}, f, indent=1)
            lines.append("VIOLATION property=%s replay=%s" % (self.prop, rp))
            lines.append("  rule %s at %s: %s" % (v["rule"], v.get("where", "?"), v["message"]))
            lines.append("  key: %s" % v["key"])
        wall = round(time.time() - self.t0, 3)
        ok_obl = [o for o in self.obligations if o["ok"]]
        samples = []
        seen_rules = set()
        for o in self.obligations:
            if o["rule"] not in seen_rules or len(samples) < 12:
                if len([s for s in samples if s["rule"] == o["rule"]]) < 3:
                    samples.append(o)
                    seen_rules.add(o["rule"])
        samples = samples[:60]
        ev = {
            "property_id": self.prop,
            "tier": self.tier,
            "seed": self.seed,
            "level": "other",
            "coverage": {
                "explanation": explanation,
                "not_decided": not_decided or "",
                "obligations": len(self.obligations),
                "discharged": len(ok_obl),
                "rules": self.rules_run,
                "rule_instances": _per_rule(self.obligations),
                "floors": self.floors,
                "samples": samples if samples else [{"note": "no obligations generated"}],
                "counters": self.counters,
                "informational": self.infos[:40],
                "facts": facts_info,
                "known_findings_reported": [e.get("key") for _v, e in known_hit],
                "checker_cmd": "./check %s --tier %s" % (self.prop, self.tier),
                "trusted_base": [
                    "rustc's MIR construction and callee resolution (nightly driver, mir_built, opt-level 0)",
                    "dependency behaviour as documented (serde, rusqlite, ring, chrono, std)",
                    "specification tables transcribed from docs/src/*.md inside the rule modules",
                ],
                "exhaustive": bool(self.extra.get("exhaustive", False)),
                **{k: v for k, v in self.extra.items() if k != "exhaustive"},
            },
            "assumptions": assumptions,
            "wall_s": wall,
            "violations": len(new),
        }
        tmp = os.path.join(EVIDENCE, "%s.json.tmp.%d" % (self.prop, os.getpid()))
        with open(tmp, "w") as f:
            json.dump(ev, f, indent=1)
        os.replace(tmp, os.path.join(EVIDENCE, "%s.json" % self.prop))
        return lines, len(new)


def _per_rule(obls):
    d = {}
    for o in obls:
        e = d.setdefault(o["rule"], {"instances": 0, "failed": 0})
        e["instances"] += 1
        if not o["ok"]:
            e["failed"] += 1
    return d


def load_known():
    try:
        with open(KNOWN) as f:
            return json.load(f).get("findings", [])
    except FileNotFoundError:
        return []
