"""Helpers shared by the rule modules."""
import re

from .cfg import Cfg
from .facts import call_names, loc
from .flow import Flow, op_place, pproj, transparent

_cfg_cache = {}
_flow_cache = {}
_registered_caches = [_cfg_cache, _flow_cache]


def register_cache(d):
    """module-level memo tables keyed by id(Facts)/id(body) register here so that they can be
    emptied whenever another tree's facts are loaded in the same process (ids are reused)"""
    _registered_caches.append(d)
    return d


def reset_caches():
    for d in _registered_caches:
        d.clear()


def cfg_of(body):
    k = id(body)
    if k not in _cfg_cache:
        _cfg_cache[k] = Cfg(body)
    return _cfg_cache[k]


def flow_of(body):
    k = id(body)
    if k not in _flow_cache:
        _flow_cache[k] = Flow(body, cfg_of(body))
    return _flow_cache[k]


def where(body, bb=None, sp=None):
    if sp is None and bb is not None:
        t = body["blocks"][bb]["t"]
        sp = t["sp"] if t else None
    if sp is None:
        sp = body["sp"]
    return "%s (%s)" % (loc(sp), body.get("owner_fn") or body["path"])


def calls_matching(cfg, pattern, user_only=False):
    rx = re.compile(pattern)
    out = []
    for i, t in cfg.calls():
        if user_only and t["sp"].get("x", "").startswith("desugar"):
            continue
        if any(rx.search(n) for n in call_names(t)):
            out.append((i, t))
    return out


def is_plumbing(t):
    """terminators produced by `?`, `.await`, `for`, async desugaring"""
    x = t["sp"].get("x", "")
    return x.startswith("desugar:QuestionMark") or x.startswith("desugar:Await") or x.startswith("desugar:Async")


def guards_of(cfg, b):
    """switch blocks S dominating block b such that only a strict subset of S's out-edges
    can reach b without passing through S again.  returns [(S, [labels reaching b])]"""
    out = []
    for s in sorted(cfg.reach):
        t = cfg.term(s)
        if not t or t["k"] != "switch" or s == b:
            continue
        if not cfg.dominates(s, b):
            continue
        reaching = []
        alle = cfg.succ[s]
        for (j, lab) in alle:
            if j == b or b in cfg.reachable(j, removed={s}):
                reaching.append(lab)
        if len(reaching) < len(alle):
            out.append((s, reaching))
    return out


def switch_operand_def(cfg, flow, s):
    """the rvalue / call that defines the (temp) operand of switch block s, following
    simple copies: returns ('discr', place, rvalue) | ('call', bb, term) | ('rv', rvalue) | None"""
    t = cfg.term(s)
    p = op_place(t["o"])
    if p is None:
        return None
    return local_def(flow, p["l"])


def local_def(flow, l, depth=0):
    ds = [d for d in flow.defs.get(l, ()) if d[0] in ("assign", "call") and not d[3]]
    if len(ds) != 1 or depth > 20:
        return None
    d = ds[0]
    if d[0] == "call":
        return ("call", d[1], d[4])
    r = d[4]
    if r["k"] == "use":
        p = op_place(r["o"])
        if p is not None and not p["p"]:
            return local_def(flow, p["l"], depth + 1)
        return ("rv", r, d[1])
    if r["k"] == "discr":
        return ("discr", r["p"], r, d[1])
    return ("rv", r, d[1])


def bool_origin(flow, operand, depth=0):
    """follow a boolean operand back through Not / copies / `?` / `.await` plumbing to the
    call that produced it.  returns (call bb, term, negated) or None"""
    neg = False
    o = operand
    rest = ()
    for _ in range(60):
        p = op_place(o)
        if p is None:
            return None
        l = p["l"]
        rest = tuple(e for e in pproj(p) if e[0] != "deref") + rest
        ds = [d for d in flow.defs.get(l, ()) if d[0] in ("assign", "call")]
        # choose the def whose lhs projection matches (whole-local defs only)
        ds = [d for d in ds if not d[3]]
        if len(ds) != 1:
            return None
        d = ds[0]
        if d[0] == "call":
            t = d[4]
            tr, strip = transparent(t)
            if tr and t["args"]:
                if strip:
                    n = len(strip)
                    if len(rest) >= n and all(rest[i][0] == strip[i][0] and rest[i][1] == strip[i][1] for i in range(n)):
                        rest = rest[n:]
                o = t["args"][0]
                continue
            return (d[1], t, neg)
        r = d[4]
        if r["k"] == "use" or r["k"] == "cast":
            o = r["o"]
            continue
        if r["k"] == "un" and r["op"] == "Not":
            neg = not neg
            o = r["o"]
            continue
        if r["k"] in ("ref", "copyforderef"):
            o = {"c": r["p"]}
            continue
        return None
    return None


def switch_true_edges(cfg, s, negated):
    """edges of bool switch s on which the *origin* value is true"""
    t = cfg.term(s)
    out = []
    for (j, lab) in cfg.succ[s]:
        # switch on bool: label "0" = false, otherwise = true
        val_true = lab != "0"
        if negated:
            val_true = not val_true
        if val_true:
            out.append((s, j, lab))
    return out


def agg_sites(cfg, adt_suffix, variant):
    """(bb, stmt idx, rvalue) of aggregate constructions of ADT::variant"""
    out = []
    for i in sorted(cfg.reach):
        for j, s in enumerate(cfg.blocks[i]["s"]):
            if s["k"] == "assign" and s["r"]["k"] == "agg" and s["r"].get("ak") == "adt":
                r = s["r"]
                if r["adt"].endswith(adt_suffix) and (variant is None or r["variant"] == variant):
                    out.append((i, j, s))
    return out


def const_strs(slice_, F):
    """string / scalar values of the constant roots of a slice"""
    out = set()
    for r in slice_.roots:
        if r[0] != "const":
            continue
        name = r[1]
        if name in F.consts:
            c = F.consts[name]
            v = c.get("scalar", c.get("val"))
            out.add(_unquote(v))
        elif name is not None:
            out.add(_unquote(name))
    return out


def _unquote(v):
    if v is None:
        return None
    v = str(v)
    if v.startswith("const "):
        v = v[6:]
    if len(v) >= 2 and v[0] == '"' and v[-1] == '"':
        return v[1:-1]
    return v


def ref_base(flow, operand, depth=0):
    """the local whose storage a reference-typed operand points into (through reborrows,
    copies and transparent wrappers); None if not a unique simple chain"""
    p = op_place(operand) if isinstance(operand, dict) and ("c" in operand or "m" in operand) else None
    if p is None or depth > 25:
        return None
    l = p["l"]
    proj = [e for e in pproj(p)]
    if any(e[0] != "deref" for e in proj):
        return l
    ds = [d for d in flow.defs.get(l, ()) if d[0] in ("assign", "call") and not d[3]]
    if not ds:
        return l  # parameter / upvar holder
    if len(ds) != 1:
        return l
    d = ds[0]
    if d[0] == "call":
        t = d[4]
        tr, _ = transparent(t)
        if tr and t["args"]:
            return ref_base(flow, t["args"][0], depth + 1)
        return l
    r = d[4]
    if r["k"] in ("ref", "rawptr", "copyforderef"):
        q = r["p"]
        qp = pproj(q)
        if qp and all(e[0] == "deref" for e in qp):
            return ref_base(flow, {"c": {"l": q["l"], "p": []}}, depth + 1)
        return q["l"]
    if r["k"] in ("use", "cast"):
        return ref_base(flow, r["o"], depth + 1) if op_place(r["o"]) is not None else l
    return l


def error_blocks(cfg):
    """blocks that only lie on a failing path of a Result-returning function: the
    `?` residual conversion and direct constructions of Result::Err"""
    out = set()
    for i in cfg.reach:
        t = cfg.blocks[i]["t"]
        if t and t["k"] == "call" and any(n.endswith("FromResidual::from_residual") for n in call_names(t)):
            out.add(i)
        for s in cfg.blocks[i]["s"]:
            if s["k"] == "assign" and s["r"]["k"] == "agg" and s["r"].get("ak") == "adt" and s["r"]["adt"].endswith("result::Result") and s["r"].get("variant") == "Err":
                out.add(i)
    return out
