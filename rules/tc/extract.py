"""Run (or reuse) the tcfacts extraction for a source tree.

The facts are keyed by a hash of the tree's src/, Cargo.toml and Cargo.lock, so a check
always analyses the *current working tree* of the repository: any edit changes the hash and
forces a re-extraction through `cargo +nightly check` with the driver as
RUSTC_WORKSPACE_WRAPPER. cargo's own freshness cache is defeated by removing the member's
fingerprints, and the facts file must carry this run's nonce.
"""
import fcntl
import hashlib
import os
import shutil
import subprocess
import sys
import time

VERIF = os.path.dirname(os.path.dirname(os.path.dirname(os.path.abspath(__file__))))
CACHE = os.environ.get("TCVERIF_CACHE", os.path.join(VERIF, ".cache"))
DRIVER_DIR = os.path.join(VERIF, "engine", "tcfacts")
DRIVER = os.path.join(DRIVER_DIR, "target", "debug", "tcfacts")


class ExtractError(Exception):
    pass


def tree_hash(repo):
    h = hashlib.sha256()
    files = []
    for root, dirs, fnames in os.walk(os.path.join(repo, "src")):
        dirs.sort()
        for fn in sorted(fnames):
            files.append(os.path.join(root, fn))
    for extra in ("Cargo.toml", "Cargo.lock"):
        p = os.path.join(repo, extra)
        if os.path.exists(p):
            files.append(p)
    for p in files:
        rel = os.path.relpath(p, repo)
        h.update(rel.encode())
        h.update(b"\0")
        with open(p, "rb") as f:
            h.update(f.read())
        h.update(b"\0")
    # the driver itself is part of the key
    with open(os.path.join(DRIVER_DIR, "src", "main.rs"), "rb") as f:
        h.update(f.read())
    return h.hexdigest()[:24]


def _sysroot():
    return subprocess.check_output(["rustc", "+nightly", "--print", "sysroot"], text=True).strip()


def build_driver(force=False):
    src = os.path.join(DRIVER_DIR, "src", "main.rs")
    if (not force) and os.path.exists(DRIVER) and os.path.getmtime(DRIVER) >= os.path.getmtime(src):
        return
    env = dict(os.environ)
    env["CARGO_NET_OFFLINE"] = "true"
    env.pop("RUSTC_WORKSPACE_WRAPPER", None)
    env.pop("RUSTFLAGS", None)
    r = subprocess.run(
        ["cargo", "+nightly", "build", "--offline"],
        cwd=DRIVER_DIR,
        env=env,
        stdout=subprocess.PIPE,
        stderr=subprocess.STDOUT,
        text=True,
    )
    if r.returncode != 0 or not os.path.exists(DRIVER):
        raise ExtractError("building the tcfacts driver failed:\n" + r.stdout[-4000:])


def _complete(path, nonce=None):
    try:
        with open(path, "rb") as f:
            first = f.readline().decode("utf-8", "replace")
            f.seek(0, 2)
            size = f.tell()
            f.seek(max(0, size - 4096))
            tail = f.read().decode("utf-8", "replace")
        if '"t":"meta"' not in first:
            return False
        if nonce is not None and ('"nonce":"%s"' % nonce) not in first:
            return False
        return '"t":"end"' in tail.strip().splitlines()[-1]
    except Exception:
        return False


def ensure_facts(repo, quiet=False):
    """returns (facts_path, hash, info dict)"""
    repo = os.path.abspath(repo)
    os.makedirs(os.path.join(CACHE, "facts"), exist_ok=True)
    h = tree_hash(repo)
    out = os.path.join(CACHE, "facts", h + ".jsonl")
    info = {"facts_hash": h, "reused": True, "extract_s": 0.0}
    if _complete(out, h):
        try:
            os.utime(out, None)
        except OSError:
            pass
        return out, h, info
    lock = open(os.path.join(CACHE, "extract.lock"), "w")
    fcntl.flock(lock, fcntl.LOCK_EX)
    try:
        if _complete(out, h):
            return out, h, info
        t0 = time.time()
        build_driver()
        target = os.path.join(CACHE, "target")
        fp = os.path.join(target, "debug", ".fingerprint")
        if os.path.isdir(fp):
            for d in os.listdir(fp):
                if d.startswith("taskchampion-"):
                    shutil.rmtree(os.path.join(fp, d), ignore_errors=True)
        env = dict(os.environ)
        env["LD_LIBRARY_PATH"] = os.path.join(_sysroot(), "lib") + (
            ":" + env["LD_LIBRARY_PATH"] if env.get("LD_LIBRARY_PATH") else ""
        )
        env["RUSTFLAGS"] = "-Zmir-opt-level=0 -Awarnings"
        env["RUSTC_WORKSPACE_WRAPPER"] = DRIVER
        env["CARGO_TARGET_DIR"] = target
        env["CARGO_NET_OFFLINE"] = "true"
        tmp = out + ".run.%d" % os.getpid()
        env["TCFACTS_OUT"] = tmp
        env["TCFACTS_NONCE"] = h
        env["TCFACTS_CRATE"] = "taskchampion"
        cmd = [
            "cargo",
            "+nightly",
            "check",
            "--offline",
            "--lib",
            "--manifest-path",
            os.path.join(repo, "Cargo.toml"),
        ]
        r = subprocess.run(cmd, cwd=repo, env=env, stdout=subprocess.PIPE, stderr=subprocess.STDOUT, text=True)
        if r.returncode != 0:
            if os.path.exists(tmp):
                os.unlink(tmp)
            lines = [l[:300] for l in r.stdout.splitlines() if "process didn't exit" not in l and len(l) < 2000]
            raise ExtractError(
                "the repository does not compile under `cargo +nightly check --lib` (or the driver failed):\n"
                + "\n".join(lines[-60:])
            )
        if not _complete(tmp, h):
            raise ExtractError(
                "cargo succeeded but no facts with this run's nonce were written (driver skipped?)\n"
                + r.stdout[-2000:]
            )
        os.replace(tmp, out)
        info["reused"] = False
        info["extract_s"] = round(time.time() - t0, 2)
        # prune old facts (keep the 8 most recent)
        d = os.path.join(CACHE, "facts")
        fs = sorted(
            (os.path.join(d, f) for f in os.listdir(d) if f.endswith(".jsonl")),
            key=lambda p: os.path.getmtime(p),
        )
        keep = int(os.environ.get("TCVERIF_KEEP_FACTS", "12"))
        for p in fs[:-keep]:
            for q in (p, p + ".pickle"):
                try:
                    os.unlink(q)
                except OSError:
                    pass
        return out, h, info
    finally:
        fcntl.flock(lock, fcntl.LOCK_UN)
        lock.close()


if __name__ == "__main__":
    repo = sys.argv[1] if len(sys.argv) > 1 else "/repo"
    try:
        p, h, info = ensure_facts(repo)
    except ExtractError as e:
        print("EXTRACT-ERROR:", e)
        sys.exit(2)
    print(p, info)
