"""Backward value-flow slicing over one MIR body (flow-insensitive on locals,
field-sensitive on projections, reference-transparent).

`Flow(body).slice(place)` answers: from which *roots* (call results, parameters, captured
variables, constants) may the value in `place` derive, and which call sites lie on the way.
It is a may-analysis: rules use it either negatively ("X must not derive from Y") or as
"every root of X is in the allowed set".
"""
import re
from collections import defaultdict

# calls that return (a view of / a wrapper around) their first argument.  Leading
# projections that merely unwrap the wrapper are stripped when passing through.
TRANSPARENT = [
    (r"^std::future::IntoFuture::into_future$", None),
    (r"^std::pin::Pin::<Ptr>::new_unchecked$", None),
    (r"^std::pin::Pin::<Ptr>::new$", None),
    (r"^std::future::Future::poll$", [("dc", "Ready"), ("f", 0)]),
    (r"^std::ops::Try::branch$", [("dc", "Continue"), ("f", 0)]),
    (r"^std::ops::FromResidual::from_residual$", None),
    (r"^std::ops::Deref::deref$", None),
    (r"^std::ops::DerefMut::deref_mut$", None),
    (r"^std::convert::AsRef::as_ref$", None),
    (r"^std::convert::AsMut::as_mut$", None),
    (r"^std::borrow::Borrow::borrow$", None),
    (r"^std::borrow::BorrowMut::borrow_mut$", None),
    (r"^std::clone::Clone::clone$", None),
    (r"^std::borrow::ToOwned::to_owned$", None),
    (r"^std::convert::Into::into$", None),
    (r"^std::convert::From::from$", None),
    (r"^std::option::Option::<T>::as_ref$", None),
    (r"^std::option::Option::<T>::as_mut$", None),
    (r"^std::option::Option::<&T>::copied$", None),
    (r"^std::option::Option::<&T>::cloned$", None),
    (r"^std::boxed::Box::<T>::new$", None),
    (r"^std::boxed::Box::<T>::pin$", None),
    (r"^std::ops::Index::index$", None),
    (r"^std::ops::IndexMut::index_mut$", None),
    (r"^std::iter::IntoIterator::into_iter$", None),
    (r"^std::string::ToString::to_string$", None),
    (r"^std::string::String::as_str$", None),
    (r"^std::string::String::into_bytes$", None),
    (r"^std::vec::Vec::<T, A>::as_slice$", None),
    (r"^std::slice::<impl \[T\]>::to_vec$", None),
    (r"^std::slice::<impl \[T\]>::iter$", None),
]
_TRANSPARENT_RX = [(re.compile(p), strip) for p, strip in TRANSPARENT]

# types through which a `&mut` argument is considered to be written by the callee with data
# deriving from the callee's other arguments
MUT_CONTAINERS = re.compile(
    r"^(std::vec::Vec<|std::collections::|std::string::String$|std::option::Option<|\[|std::iter::|std::vec::|std::slice::)"
)


SELECTOR = re.compile(r"^std::iter::Iterator::(filter|skip_while|take_while|inspect|find|rfind)$|^std::option::Option::<T>::filter$")


def transparent(t):
    for n in (t.get("callee"), t.get("resolved")):
        if not n:
            continue
        for rx, strip in _TRANSPARENT_RX:
            if rx.search(n):
                return True, strip
    return False, None


def pelem(e):
    """normalise a projection element to a hashable tuple"""
    if e == "deref":
        return ("deref",)
    if "f" in e:
        return ("f", e["f"], e.get("n"))
    if "dc" in e:
        return ("dc", e["dc"])
    if "ix" in e:
        return ("ix", e["ix"])
    if "ci" in e:
        return ("ci", tuple(e["ci"]))
    if "sub" in e:
        return ("sub", tuple(e["sub"]))
    return ("other", str(e))


def pproj(p):
    return tuple(pelem(e) for e in p["p"])


def op_place(o):
    if "c" in o:
        return o["c"]
    if "m" in o:
        return o["m"]
    return None


def _strip_derefs(proj):
    return tuple(e for e in proj if e[0] != "deref")


def _field_match(a, b):
    """projection elements equal (ignoring names)"""
    if a[0] != b[0]:
        return False
    if a[0] == "f":
        return a[1] == b[1]
    if a[0] == "dc":
        return a[1] == b[1]
    return True


class Slice:
    def __init__(self):
        self.roots = set()  # ('call', bb, name, proj) | ('param', n, proj) | ('upvar', name, proj) | ('const', repr)
        self.calls = {}  # bb -> term  (every call site traversed or reached)
        self.locals = set()
        self.visited = set()
        self.predicates = {}  # bb of a filter-like call -> its predicate operand

    def call_names(self):
        out = set()
        for t in self.calls.values():
            for k in ("callee", "resolved"):
                if t.get(k):
                    out.add(t[k])
        return out

    def has_call(self, pattern):
        rx = re.compile(pattern)
        return [bb for bb, t in self.calls.items() if any(rx.search(n) for n in (t.get("callee") or "", t.get("resolved") or ""))]

    def root_calls(self):
        return {(r[1], r[2]) for r in self.roots if r[0] == "call"}

    def consts(self):
        return {r[1] for r in self.roots if r[0] == "const"}

    def params(self):
        return {r[1] for r in self.roots if r[0] == "param"}

    def upvars(self):
        return {r[1] for r in self.roots if r[0] == "upvar"}


class Flow:
    def __init__(self, body, cfg=None):
        self.body = body
        self.blocks = body["blocks"]
        self.argc = body["argc"]
        self.is_closure = body["kind"] == "Closure"
        self.upvars = body.get("upvars", [])
        self.reach = cfg.reach if cfg is not None else set(i for i, b in enumerate(self.blocks) if not b["cleanup"])
        self.defs = defaultdict(list)
        self._index()

    def local_ty(self, l):
        return self.body["locals"][l]["ty"]

    def local_name(self, l):
        return self.body["locals"][l].get("name")

    def _index(self):
        # single-def ref chains: temp -> (base local, proj) for `&mut place`
        refs = {}
        for i in sorted(self.reach):
            bl = self.blocks[i]
            for j, s in enumerate(bl["s"]):
                if s["k"] == "assign":
                    l = s["l"]
                    self.defs[l["l"]].append(("assign", i, j, pproj(l), s["r"]))
                    r = s["r"]
                    if not l["p"]:
                        if r["k"] == "ref" and r["m"] == "mut":
                            refs.setdefault(l["l"], []).append(("ref", r["p"]["l"], pproj(r["p"])))
                        elif r["k"] in ("use", "cast"):
                            p = op_place(r["o"])
                            if p is not None and not p["p"]:
                                refs.setdefault(l["l"], []).append(("alias", p["l"], ()))
                        elif r["k"] == "rawptr":
                            refs.setdefault(l["l"], []).append(("ref", r["p"]["l"], pproj(r["p"])))
            t = bl["t"]
            if t and t["k"] == "call":
                d = t["dest"]
                self.defs[d["l"]].append(("call", i, None, pproj(d), t))
                tr, _ = transparent(t)
                if tr and not d["p"] and t["args"]:
                    # Pin::new_unchecked(&mut x), deref_mut(&mut x) ... : result aliases arg0
                    p = op_place(t["args"][0])
                    if p is not None and not p["p"]:
                        refs.setdefault(d["l"], []).append(("alias", p["l"], ()))
            elif t and t["k"] == "yield":
                pass
        self.refs = refs
        # mutation sites: call with an argument that is (an alias of) `&mut L...`
        for i in sorted(self.reach):
            t = self.blocks[i]["t"]
            if not t or t["k"] != "call":
                continue
            for ai, a in enumerate(t["args"]):
                p = op_place(a)
                if p is None:
                    continue
                for (base, bproj) in self._mut_targets(p["l"], 0):
                    bty = self.local_ty(base)
                    if base == p["l"]:
                        continue
                    self.defs[base].append(("mutcall", i, ai, bproj, t))

    def _mut_targets(self, l, depth, seen=None):
        """locals that temp `l` is a mutable reference to (through alias / reborrow chains)"""
        if seen is None:
            seen = set()
        if l in seen or depth > 12:
            return []
        seen.add(l)
        out = []
        for kind, base, proj in self.refs.get(l, ()):
            if kind == "ref":
                # `&mut (*T)` is a reborrow: continue through T; otherwise base is the target
                if proj and proj[0] == ("deref",):
                    sub = self._mut_targets(base, depth + 1, seen)
                    if sub:
                        out.extend(sub)
                    else:
                        out.append((base, _strip_derefs(proj)))
                else:
                    out.append((base, proj))
            else:
                out.extend(self._mut_targets(base, depth + 1, seen))
        return out

    # ------------------------------------------------------------------
    def slice_operand(self, o, stop=None, mut_ok=None, through_all_calls=True, stop_locals=()):
        s = Slice()
        self._stop_locals = set(stop_locals)
        self._visit_operand(o, (), s, stop, mut_ok, through_all_calls)
        return s

    def slice_place(self, place, stop=None, mut_ok=None, through_all_calls=True, stop_locals=()):
        s = Slice()
        self._stop_locals = set(stop_locals)
        self._visit(place["l"], pproj(place), s, stop, mut_ok, through_all_calls)
        return s

    def slice_local(self, l, proj=(), stop=None, mut_ok=None, through_all_calls=True, stop_locals=()):
        s = Slice()
        self._stop_locals = set(stop_locals)
        self._visit(l, tuple(proj), s, stop, mut_ok, through_all_calls)
        return s

    def slice_def(self, d, stop=None, mut_ok=None, stop_locals=()):
        """sources of one definition (an entry of self.defs[l])"""
        s = Slice()
        self._stop_locals = set(stop_locals)
        if d[0] == "assign":
            self._visit_rvalue(d[4], (), s, stop, mut_ok, True)
        elif d[0] == "call":
            self._visit_call(d[1], d[4], (), s, stop, mut_ok, True)
        elif d[0] == "mutcall":
            t = d[4]
            s.calls[d[1]] = t
            for ai, a in enumerate(t["args"]):
                if ai != d[2]:
                    self._visit_operand(a, (), s, stop, mut_ok, True)
        return s

    def _visit_operand(self, o, rest, s, stop, mut_ok, tac):
        p = op_place(o)
        if p is not None:
            self._visit(p["l"], pproj(p) + tuple(rest), s, stop, mut_ok, tac)
        elif "k" in o:
            k = o["k"]
            s.roots.add(("const", k.get("named") or k.get("repr"), k.get("fn")))

    def _visit(self, l, proj, s, stop, mut_ok, tac):
        # references are transparent: drop deref elements
        proj = _strip_derefs(proj)
        key = (l, proj)
        if key in s.visited:
            return
        if len(s.visited) > 20000:
            raise RuntimeError("slice too large in %s" % self.body["path"])
        s.visited.add(key)
        s.locals.add(l)
        if l in getattr(self, "_stop_locals", ()):
            s.roots.add(("local", l, proj))
            return
        # parameters / captured variables
        if 1 <= l <= self.argc:
            if self.is_closure and l == 1:
                # closure / coroutine environment: first field projection is the upvar index
                idx = None
                rest = proj
                for n, e in enumerate(proj):
                    if e[0] == "f":
                        idx = e[1]
                        rest = proj[n + 1 :]
                        break
                if idx is not None and idx < len(self.upvars):
                    s.roots.add(("upvar", self.upvars[idx], rest))
                else:
                    s.roots.add(("upvar", "?env", proj))
            else:
                s.roots.add(("param", l, proj))
        for d in self.defs.get(l, ()):
            kind = d[0]
            lhs = _strip_derefs(d[3])
            # relation between the def's lhs projection and the queried projection
            if len(lhs) <= len(proj):
                if not all(_field_match(a, b) for a, b in zip(lhs, proj)):
                    continue
                rest = proj[len(lhs) :]
            else:
                if not all(_field_match(a, b) for a, b in zip(lhs, proj)):
                    continue
                rest = ()
            if kind == "assign":
                self._visit_rvalue(d[4], rest, s, stop, mut_ok, tac)
            elif kind == "call":
                self._visit_call(d[1], d[4], rest, s, stop, mut_ok, tac)
            elif kind == "mutcall":
                t = d[4]
                ty = self.local_ty(l)
                ok = MUT_CONTAINERS.search(ty.lstrip("&").replace("mut ", "")) is not None
                if mut_ok is not None:
                    ok = mut_ok(ty, t)
                if not ok:
                    continue
                s.calls[d[1]] = t
                if stop is not None and stop(t):
                    s.roots.add(("call", d[1], t.get("callee") or t.get("resolved") or "?", ("mutarg", d[2])))
                    continue
                for ai, a in enumerate(t["args"]):
                    if ai == d[2]:
                        continue
                    self._visit_operand(a, (), s, stop, mut_ok, tac)

    def _visit_rvalue(self, r, rest, s, stop, mut_ok, tac):
        k = r["k"]
        if k in ("use", "cast"):
            self._visit_operand(r["o"], rest, s, stop, mut_ok, tac)
        elif k in ("ref", "rawptr", "copyforderef"):
            p = r["p"]
            self._visit(p["l"], pproj(p) + tuple(rest), s, stop, mut_ok, tac)
        elif k == "agg":
            ak = r.get("ak")
            ops = r["ops"]
            if ak in ("adt", "tuple") and rest:
                rr = list(rest)
                if rr and rr[0][0] == "dc":
                    if ak == "adt" and rr[0][1] != r.get("variant"):
                        return  # other variant: this def cannot supply it
                    rr = rr[1:]
                if rr and rr[0][0] == "f":
                    idx = rr[0][1]
                    if ak == "adt" and r.get("active_field") is not None:
                        if idx == r["active_field"] and ops:
                            self._visit_operand(ops[0], rr[1:], s, stop, mut_ok, tac)
                        return
                    if idx < len(ops):
                        self._visit_operand(ops[idx], rr[1:], s, stop, mut_ok, tac)
                    return
            for o in ops:
                self._visit_operand(o, (), s, stop, mut_ok, tac)
            if ak == "adt" and not ops:
                s.roots.add(("unit", r["adt"], r["variant"]))
            if ak in ("closure", "coroutine", "coroutineclosure"):
                s.roots.add(("closure", r["def"], None))
        elif k == "bin":
            self._visit_operand(r["a"], (), s, stop, mut_ok, tac)
            self._visit_operand(r["b"], (), s, stop, mut_ok, tac)
        elif k == "un":
            self._visit_operand(r["o"], (), s, stop, mut_ok, tac)
        elif k == "discr":
            p = r["p"]
            self._visit(p["l"], pproj(p), s, stop, mut_ok, tac)
        elif k == "repeat":
            self._visit_operand(r["o"], (), s, stop, mut_ok, tac)
        else:
            s.roots.add(("opaque", r.get("dbg", k), None))

    def _visit_call(self, bb, t, rest, s, stop, mut_ok, tac):
        s.calls[bb] = t
        name = t.get("callee") or t.get("resolved") or "?"
        if stop is not None and stop(t):
            s.roots.add(("call", bb, name, tuple(rest)))
            return
        tr, strip = transparent(t)
        if tr and t["args"] and name.endswith("FromResidual::from_residual") and rest and rest[0][0] == "dc" and rest[0][1] in ("Ok", "Some"):
            return  # a propagated error/None cannot supply the success payload that is asked for
        if tr and t["args"]:
            rr = list(rest)
            if strip:
                # strip the wrapper-unwrapping prefix if present
                ok = True
                for n, e in enumerate(strip):
                    if n < len(rr) and rr[n][0] == e[0] and rr[n][1] == e[1]:
                        continue
                    ok = False
                    break
                if ok:
                    rr = rr[len(strip) :]
                elif rr:
                    # e.g. the Break side of Try::branch: error path — derives from the operand
                    rr = []
            self._visit_operand(t["args"][0], rr, s, stop, mut_ok, tac)
            for a in t["args"][1:]:
                # index operands etc. do not carry the value
                pass
            return
        if SELECTOR.search(name) and len(t["args"]) == 2:
            # iterator.filter(pred) and friends: the items derive from the receiver; the predicate
            # selects, it does not supply data.  It is remembered so that rules can treat it as a guard.
            s.predicates[bb] = t["args"][1]
            s.roots.add(("callnode", bb, name, tuple(rest)))
            self._visit_operand(t["args"][0], (), s, stop, mut_ok, tac)
            return
        if "callee" not in t:
            # indirect call through a fn pointer / closure value
            self._visit_operand(t["fnop"], (), s, stop, mut_ok, tac)
        if not t["args"] or not tac:
            s.roots.add(("call", bb, name, tuple(rest)))
            if not tac:
                return
        if not t["args"]:
            return
        # an ordinary call: its result derives from all of its arguments; the call itself is
        # also recorded as a (non-root) source so rules can ask for it
        s.roots.add(("callnode", bb, name, tuple(rest)))
        for a in t["args"]:
            self._visit_operand(a, (), s, stop, mut_ok, tac)


def call_arg_slice(flow, term, idx, **kw):
    return flow.slice_operand(term["args"][idx], **kw)
