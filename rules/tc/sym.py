"""Decision-table ("path table") extraction: enumerate the paths of a loop-free region of a
MIR body and evaluate each over a small symbolic store.  No solver, no execution: values
are terms over the parameters; branches become atoms with outcomes; calls become events.

Values (hashable tuples):
  ('P', name)                         parameter / captured variable / opaque root
  ('K', repr)                         constant
  ('F', base, variant|None, field)    projection of an opaque value
  ('A', adt, variant, ((f, v), ...))  ADT aggregate
  ('T', (v, ...))                     tuple / array aggregate
  ('C', id, callee, (args...))        result of call event #id
  ('M', id, old)                      value of a local after being passed by &mut to call #id
  ('D', v, ((discr, name), ...))      discriminant read
  ('B', op, a, b)  ('U', op, a)       primitive operations
  ('Br', kind, v)                     Try::branch(v) of a Result/Option
  ('Cl', def, (captures...))          closure / coroutine value
  ('?', tag)                          unknown
"""
import re

from .facts import call_names
from .flow import op_place, pelem

PURE = re.compile(
    r"(PartialEq::(eq|ne)|PartialOrd::(lt|le|gt|ge)|::is_empty|::is_some|::is_none|::is_ok|::is_err|"
    r"::contains|::contains_key|::is_undo_point|::starts_with|::ends_with|::len|::is_known_key|::is_synthetic|::is_user)$"
)
LOG_MACRO = re.compile(r"(Bang:)?(\$crate::)?(__log|log|trace|debug|info|warn|error|log_enabled)$")


class TooManyPaths(Exception):
    pass


class Path:
    def __init__(self):
        self.env = {}
        self.cond = {}  # atom -> outcome
        self.atoms = []  # ordered (atom, outcome, bb)
        self.events = []  # dict(id, callee, names, args, bb, sp)
        self.blocks = []
        self.end = None
        self.ret = None
        self.visits = {}

    def clone(self):
        p = Path()
        p.env = dict(self.env)
        p.cond = dict(self.cond)
        p.atoms = list(self.atoms)
        p.events = list(self.events)
        p.blocks = list(self.blocks)
        p.visits = dict(self.visits)
        return p


def _fname(e):
    return e[2] if e[2] is not None else e[1]


class SymExec:
    def __init__(self, body, cfg, region=None, entry=0, skip_macros=LOG_MACRO, max_paths=20000, params=None,
                 init_env=None, stop_blocks=()):
        self.body = body
        self.cfg = cfg
        self.blocks = body["blocks"]
        self.region = set(region) if region is not None else None
        self.entry = entry
        self.skip_macros = skip_macros
        self.max_paths = max_paths
        self.paths = []
        self.nid = 0
        self.init_env = init_env or {}
        self.stop_blocks = set(stop_blocks)
        self.upvars = body.get("upvars", [])
        self.is_closure = body["kind"] == "Closure"
        self.back = set(cfg.back_edges())

    # -- values -----------------------------------------------------------
    def local_root(self, l):
        nm = self.body["locals"][l].get("name")
        if 1 <= l <= self.body["argc"]:
            if self.is_closure and l == 1:
                return ("P", "$env")
            return ("P", nm or "_%d" % l)
        return ("?", "uninit:%s" % (nm or "_%d" % l))

    def read_local(self, p, l):
        if l in p.env:
            return p.env[l]
        if l in self.init_env:
            return self.init_env[l]
        return self.local_root(l)

    def project(self, v, elems, p=None):
        i = 0
        n = len(elems)
        while i < n:
            e = elems[i]
            k = e[0]
            if k == "deref":
                i += 1
                continue
            if k == "dc":
                variant = e[1]
                # followed by a field?
                if v[0] == "A":
                    if v[2] != variant:
                        return ("?", "downcast-mismatch")
                    i += 1
                    continue
                if v[0] == "Br":
                    # (branch(x) as Continue).0 / (.. as Break).0
                    kind, x = v[1], v[2]
                    if i + 1 < n and elems[i + 1][0] == "f":
                        if variant == "Continue":
                            v = self.project(x, [("dc", "Ok" if kind == "Result" else "Some"), ("f", 0, None)])
                        else:
                            if kind == "Result":
                                v = ("A", "std::result::Result", "Err", ((0, self.project(x, [("dc", "Err"), ("f", 0, None)])),))
                            else:
                                v = ("A", "std::option::Option", "None", ())
                        i += 2
                        continue
                    return ("?", "br-downcast")
                if i + 1 < n and elems[i + 1][0] == "f":
                    f = elems[i + 1]
                    v = self.field_of(v, variant, f)
                    i += 2
                    continue
                v = ("F", v, variant, None)
                i += 1
                continue
            if k == "f":
                v = self.field_of(v, None, e)
                i += 1
                continue
            if k == "ix":
                iv = self.read_local(p, e[1]) if (p is not None and len(e) > 1) else ("?", "i")
                key = ("idx", show(iv))
                if v[0] == "O" and any(kk == key for (kk, _x) in v[2]):
                    v = [x for (kk, x) in v[2] if kk == key][0]
                else:
                    v = ("F", v, None, "[%s]" % show(iv))
                i += 1
                continue
            v = ("F", v, None, str(e))
            i += 1
        return v

    def field_of(self, v, variant, f):
        idx, name = f[1], f[2]
        if isinstance(name, str) and name.isdigit():
            name = int(name)
        if v[0] == "A":
            for (fn, fv) in v[3]:
                if fn == name or fn == idx:
                    return fv
            # positional
            if idx < len(v[3]):
                return v[3][idx][1]
            return ("?", "no-field")
        if v[0] == "T":
            if idx < len(v[1]):
                return v[1][idx]
            return ("?", "no-field")
        if v[0] == "P" and v[1] == "$env" and variant is None:
            if idx < len(self.upvars):
                return ("P", self.upvars[idx])
        if v[0] == "O":
            for (k, ov) in v[2]:
                if k == (variant, idx):
                    return ov
            return ("F", v[1], variant, name if name is not None else idx)
        return ("F", v, variant, name if name is not None else idx)

    def read_place(self, p, place):
        v = self.read_local(p, place["l"])
        return self.project(v, [pelem(e) for e in place["p"]], p)

    def operand(self, p, o):
        pl = op_place(o)
        if pl is not None:
            return self.read_place(p, pl)
        k = o.get("k")
        if k is not None:
            if "named" in k:
                return ("K", k["named"])
            if "static" in k:
                return ("K", "static:" + k["static"])
            if "fn" in k:
                return ("K", "fn:" + k["fn"])
            return ("K", k.get("val") if k.get("val") is not None and k.get("ty") in ("bool",) else k.get("repr"))
        return ("?", "operand")

    def write_place(self, p, place, v):
        l = place["l"]
        elems = [pelem(e) for e in place["p"] if e != "deref"]
        elems = [e for e in elems if e[0] != "deref"]
        if not elems:
            p.env[l] = v
            return
        if len(elems) == 1 and elems[0][0] == "ix":
            iv = self.read_local(p, elems[0][1]) if len(elems[0]) > 1 else ("?", "ix")
            old = self.read_local(p, l)
            key = ("idx", show(iv))
            if old[0] == "O":
                ov = tuple((k, x) for (k, x) in old[2] if k != key) + ((key, v),)
                p.env[l] = ("O", old[1], ov)
            else:
                p.env[l] = ("O", old, ((key, v),))
            return
        # field write: keep as override object
        variant = None
        key = None
        if elems[0][0] == "dc" and len(elems) >= 2 and elems[1][0] == "f":
            key = (elems[0][1], elems[1][1])
        elif elems[0][0] == "f":
            key = (None, elems[0][1])
        old = self.read_local(p, l)
        if old[0] == "C" and old[2].endswith("::new_uninit"):
            # `vec![..]` lowering: the array is written into a fresh Box<MaybeUninit<[T; N]>>
            p.env[l] = v
            return
        if key is None or len(elems) > (2 if elems[0][0] == "dc" else 1):
            p.env[l] = ("M", -1, old)
            return
        if old[0] == "T" and key[0] is None and key[1] < len(old[1]):
            lst = list(old[1])
            lst[key[1]] = v
            p.env[l] = ("T", tuple(lst))
            return
        if old[0] == "O":
            ov = tuple((k, x) for (k, x) in old[2] if k != key) + ((key, v),)
            p.env[l] = ("O", old[1], ov)
        else:
            p.env[l] = ("O", old, ((key, v),))

    def rvalue(self, p, r):
        k = r["k"]
        if k in ("use",):
            return self.operand(p, r["o"])
        if k == "cast":
            return self.operand(p, r["o"])
        if k in ("ref", "rawptr", "copyforderef"):
            return self.read_place(p, r["p"])
        if k == "agg":
            ak = r.get("ak")
            ops = [self.operand(p, o) for o in r["ops"]]
            if ak == "adt":
                fs = r.get("fields", [])
                if r.get("active_field") is not None:
                    return ("A", r["adt"], r["variant"], ((r["active_field"], ops[0]),))
                names = [f if not f.isdigit() else int(f) for f in fs]
                return ("A", r["adt"], r["variant"], tuple(zip(names, ops)))
            if ak in ("tuple", "array"):
                return ("T", tuple(ops))
            if ak in ("closure", "coroutine", "coroutineclosure"):
                return ("Cl", r["def"], tuple(ops))
            return ("T", tuple(ops))
        if k == "bin":
            return ("B", r["op"], self.operand(p, r["a"]), self.operand(p, r["b"]))
        if k == "un":
            return ("U", r["op"], self.operand(p, r["o"]))
        if k == "discr":
            v = self.read_place(p, r["p"])
            return ("D", v, tuple((d, n) for d, n in r.get("variants", [])))
        if k == "repeat":
            return ("Rep", self.operand(p, r["o"]), str(r.get("n")))
        return ("?", r.get("dbg", k))

    # -- branching --------------------------------------------------------------
    def decide(self, p, t, bb):
        """returns list of (target, atom, outcome) feasible successors of switch t"""
        x = self.operand(p, t["o"])
        targets = [(v, b) for v, b in t["targets"]]
        otherwise = t["otherwise"]
        neg = False
        while x[0] == "U" and x[1] == "Not":
            x = x[2]
            neg = not neg
        # static cases
        if x[0] == "K":
            val = x[1]
            sval = {"true": "1", "false": "0"}.get(str(val), None)
            if sval is None:
                m = re.match(r"^const (\d+)", str(val))
                sval = m.group(1) if m else None
            if sval is not None:
                if neg:
                    sval = "1" if sval == "0" else "0"
                for v, b in targets:
                    if v == sval:
                        return [(b, None, None)]
                return [(otherwise, None, None)]
        if x[0] == "D":
            v, variants = x[1], dict(x[2])
            if v[0] == "A":
                # known variant
                for d, n in variants.items():
                    if n == v[2]:
                        for tv, b in targets:
                            if tv == d:
                                return [(b, None, None)]
                        return [(otherwise, None, None)]
            if v[0] == "Br":
                kind, inner = v[1], v[2]
                okname = "Ok" if kind == "Result" else "Some"
                errname = "Err" if kind == "Result" else "None"
                if inner[0] == "A":
                    want = "Continue" if inner[2] == okname else "Break"
                    for d, n in variants.items():
                        if n == want:
                            for tv, b in targets:
                                if tv == d:
                                    return [(b, None, None)]
                            return [(otherwise, None, None)]
                atom = ("variant", inner)
                out = []
                listed = set()
                for tv, b in targets:
                    n = variants.get(tv)
                    listed.add(n)
                    out.append((b, atom, okname if n == "Continue" else errname))
                rest = [n for n in variants.values() if n not in listed]
                if rest:
                    n = rest[0]
                    out.append((otherwise, atom, okname if n == "Continue" else errname))
                return out
            atom = ("variant", v)
            out = []
            listed = []
            for tv, b in targets:
                n = variants.get(tv, tv)
                listed.append(n)
                out.append((b, atom, n))
            rest = [n for n in variants.values() if n not in listed]
            if len(rest) == 1:
                out.append((otherwise, atom, rest[0]))
            elif len(rest) > 1:
                out.append((otherwise, atom, ("oneof", tuple(rest))))
            elif not variants:
                out.append((otherwise, atom, ("not", tuple(listed))))
            return out
        # boolean atom
        atom = self.atom_of(x)
        out = []
        tys = t.get("ty")
        if tys == "bool" or all(v in ("0", "1") for v, _b in targets):
            for v, b in targets:
                val = v != "0"
                out.append((b, atom, (not val) if neg else val))
            # otherwise = remaining bool value
            listed = {v for v, _b in targets}
            if "0" in listed and "1" not in listed:
                out.append((otherwise, atom, (not True) if neg else True))
            elif "1" in listed and "0" not in listed:
                out.append((otherwise, atom, (not False) if neg else False))
            return out
        # integer switch on opaque value
        for v, b in targets:
            out.append((b, ("int", x), v))
        out.append((otherwise, ("int", x), ("not", tuple(v for v, _b in targets))))
        return out

    def atom_of(self, x):
        if x[0] == "C":
            callee = x[2]
            if PURE.search(callee):
                return ("call", callee, x[3])
            return ("call#", x[1], callee, x[3])
        if x[0] == "B":
            return ("bin", x[1], x[2], x[3])
        return ("val", x)

    # -- main loop -------------------------------------------------------------------
    def run(self):
        p = Path()
        self._walk(p, self.entry)
        return self.paths

    def _finish(self, p, kind, extra=None):
        p.end = (kind, extra)
        self.paths.append(p)
        if len(self.paths) > self.max_paths:
            raise TooManyPaths("%s: more than %d paths" % (self.body["path"], self.max_paths))

    def _walk(self, p, bb):
        stack = [(p, bb, None)]
        while stack:
            p, bb, came = stack.pop()
            while True:
                if self.region is not None and bb not in self.region:
                    self._finish(p, "exit", bb)
                    break
                if bb in self.stop_blocks and p.blocks:
                    self._finish(p, "stop", bb)
                    break
                if came is not None and (came, bb) in self.back:
                    self._finish(p, "backedge", bb)
                    break
                p.visits[bb] = p.visits.get(bb, 0) + 1
                if p.visits[bb] > 1:
                    self._finish(p, "revisit", bb)
                    break
                p.blocks.append(bb)
                bl = self.blocks[bb]
                for s in bl["s"]:
                    if s["k"] == "assign":
                        self.write_place(p, s["l"], self.rvalue(p, s["r"]))
                    elif s["k"] == "setdiscr":
                        pass
                t = bl["t"]
                k = t["k"] if t else None
                if k in ("goto", "falseedge", "falseunwind", "drop", "assert"):
                    came, bb = bb, t["t"]
                    continue
                if k == "call":
                    self.do_call(p, t, bb)
                    if t["t"] is None:
                        self._finish(p, "diverge", bb)
                        break
                    came, bb = bb, t["t"]
                    continue
                if k == "switch":
                    # skip logging macros: take the branch that does not log
                    mac = t["sp"].get("xo") or t["sp"].get("x") or ""
                    if self.skip_macros is not None and self.skip_macros.search(mac.split("::")[-1] if "::" in mac else mac):
                        tg = [b for v, b in t["targets"] if v == "0"]
                        came, bb = bb, (tg[0] if tg else t["otherwise"])
                        continue
                    succs = self.decide(p, t, bb)
                    feas = []
                    for (b, atom, outcome) in succs:
                        if atom is None:
                            feas.append((b, None, None))
                            continue
                        prev = p.cond.get(atom)
                        if prev is not None:
                            outcome = _refine(prev, outcome)
                            if outcome is None:
                                continue
                        feas.append((b, atom, outcome))
                    if not feas:
                        self._finish(p, "infeasible", bb)
                        break
                    # fork
                    for (b, atom, outcome) in feas[1:]:
                        q = p.clone()
                        _record(q, atom, outcome, bb)
                        stack.append((q, b, bb))
                    b, atom, outcome = feas[0]
                    _record(p, atom, outcome, bb)
                    came, bb = bb, b
                    continue
                if k == "return":
                    p.ret = self.read_local(p, 0)
                    self._finish(p, "return", bb)
                    break
                if k == "yield":
                    self._finish(p, "yield", bb)
                    break
                self._finish(p, k or "none", bb)
                break

    def do_call(self, p, t, bb):
        names = call_names(t)
        name = names[0] if names else "?"
        resolved = t.get("resolved") or ""
        args = [self.operand(p, a) for a in t["args"]]
        val = None
        # plumbing with known semantics
        if name == "std::future::IntoFuture::into_future" or name.startswith("std::pin::Pin::<Ptr>::new") or name in (
            "std::ops::Deref::deref", "std::ops::DerefMut::deref_mut", "std::convert::AsRef::as_ref", "std::borrow::Borrow::borrow",
            "std::ops::FromResidual::from_residual", "std::convert::Into::into", "std::convert::From::from",
            "std::clone::Clone::clone", "std::borrow::ToOwned::to_owned", "std::option::Option::<T>::as_ref",
            "std::option::Option::<&T>::copied", "std::option::Option::<&T>::cloned", "std::option::Option::<T>::as_mut",
            "std::boxed::Box::<T>::new", "std::boxed::Box::<T>::pin", "std::string::String::as_str",
            "std::boxed::box_assume_init_into_vec_unsafe",
        ):
            val = args[0] if args else ("?", "noargs")
        elif name == "std::future::Future::poll":
            val = ("A", "std::task::Poll", "Ready", ((0, args[0]),))
        elif name == "std::future::get_context":
            val = ("?", "ctx")
        elif name == "std::ops::Try::branch":
            kind = "Option" if "option::Option" in resolved else "Result"
            val = ("Br", kind, args[0])
        if val is None:
            self.nid += 1
            eid = len(p.events) + 1
            val = ("C", eid, name, tuple(args))
            p.events.append({"id": eid, "callee": name, "names": names, "args": tuple(args), "bb": bb, "sp": t["sp"],
                             "closures": t.get("closures", [])})
            # locals passed by &mut are modified by the call
            for a in t["args"]:
                pl = op_place(a)
                if pl is None or pl["p"]:
                    continue
                # temp = &mut L ?
                src = self._mut_target(pl["l"])
                sty = self.body["locals"][src]["ty"] if src is not None else ""
                if src is not None and (not sty.startswith("&") or sty.startswith("&mut ")):
                    old = self.read_local(p, src)
                    p.env[src] = ("M", eid, old)
        self.write_place(p, t["dest"], val)

    def _mut_target(self, tmp, depth=0):
        """the local that reference temp `tmp` mutably points to, following reborrows, moves and
        unsizing casts of single-definition temporaries"""
        if not hasattr(self, "_mt"):
            self._mt = {}
            for bl in self.blocks:
                for s in bl["s"]:
                    if s["k"] != "assign" or s["l"]["p"]:
                        continue
                    r = s["r"]
                    l = s["l"]["l"]
                    if r["k"] == "ref" and r["m"] == "mut":
                        q = r["p"]
                        if not q["p"]:
                            self._mt.setdefault(l, set()).add(("loc", q["l"]))
                        elif all(e == "deref" for e in q["p"]):
                            self._mt.setdefault(l, set()).add(("via", q["l"]))
                        else:
                            self._mt.setdefault(l, set()).add(("loc", q["l"]))
                    elif r["k"] in ("use", "cast"):
                        q = op_place(r["o"])
                        if q is not None and not q["p"]:
                            self._mt.setdefault(l, set()).add(("via", q["l"]))
                t = bl["t"]
                if t and t["k"] == "call" and not t["dest"]["p"] and t["args"]:
                    nm = t.get("callee") or ""
                    if nm.endswith("DerefMut::deref_mut") or nm.endswith("AsMut::as_mut") or nm.endswith("IndexMut::index_mut") or nm.endswith("BorrowMut::borrow_mut") or nm.endswith("::as_mut_slice"):
                        q = op_place(t["args"][0])
                        if q is not None and not q["p"]:
                            self._mt.setdefault(t["dest"]["l"], set()).add(("via", q["l"]))
        if depth > 10:
            return None
        c = self._mt.get(tmp)
        if c and len(c) == 1:
            kind, l = next(iter(c))
            if kind == "loc":
                return l
            return self._mut_target(l, depth + 1)
        return None


def _record(p, atom, outcome, bb):
    """remember the outcome of a test on path p; a later, sharper outcome of the same test
    (a second match on the same enum) replaces the earlier one"""
    if atom is None:
        return
    if atom not in p.cond:
        p.cond[atom] = outcome
        p.atoms.append((atom, outcome, bb))
    elif p.cond[atom] != outcome:
        p.cond[atom] = outcome
        p.atoms = [(a, (outcome if a == atom else o), b_) for (a, o, b_) in p.atoms]


def _as_set(x):
    if isinstance(x, tuple) and x and x[0] == "oneof":
        return ("in", set(x[1]))
    if isinstance(x, tuple) and x and x[0] == "not":
        return ("out", set(x[1]))
    return ("in", {x})


def _refine(prev, outcome):
    """the conjunction of two outcomes of one test, or None when they exclude each other"""
    if prev == outcome:
        return prev
    if isinstance(prev, bool) or isinstance(outcome, bool):
        return None
    (ka, sa), (kb, sb) = _as_set(prev), _as_set(outcome)
    if ka == "in" and kb == "in":
        s = sa & sb
    elif ka == "in":
        s = sa - sb
    elif kb == "in":
        s = sb - sa
    else:
        return ("not", tuple(sorted(sa | sb, key=str)))
    if not s:
        return None
    if len(s) == 1:
        return next(iter(s))
    # keep a stable order: that of whichever operand listed them
    order = [x for x in (list(prev[1]) if isinstance(prev, tuple) else [prev]) + (list(outcome[1]) if isinstance(outcome, tuple) else [outcome]) if x in s]
    seen = []
    for x in order:
        if x not in seen:
            seen.append(x)
    return ("oneof", tuple(seen))


def _compatible(prev, outcome):
    if prev == outcome:
        return True
    for a, b in ((prev, outcome), (outcome, prev)):
        if isinstance(a, tuple) and a and a[0] == "not":
            return b not in a[1] if not isinstance(b, tuple) else True
        if isinstance(a, tuple) and a and a[0] == "oneof":
            return b in a[1] if not isinstance(b, tuple) else True
    return False


# ---------------------------------------------------------------------------------------
# pretty printing

def show(v, depth=0):
    if depth > 8:
        return "…"
    k = v[0]
    if k == "P":
        return v[1]
    if k == "K":
        return str(v[1]).replace("const ", "")
    if k == "F":
        base = show(v[1], depth + 1)
        if v[2]:
            return "%s.%s.%s" % (base, v[2], v[3])
        return "%s.%s" % (base, v[3])
    if k == "A":
        return "%s::%s{%s}" % (v[1].split("::")[-1], v[2], ", ".join("%s: %s" % (f, show(x, depth + 1)) for f, x in v[3]))
    if k == "T":
        return "(%s)" % ", ".join(show(x, depth + 1) for x in v[1])
    if k == "Rep":
        return "[%s; %s]" % (show(v[1], depth + 1), v[2])
    if k == "C":
        return "%s#%d(%s)" % (v[2].split("::")[-1], v[1], ", ".join(show(x, depth + 1) for x in v[3]))
    if k == "M":
        return "%s'%d" % (show(v[2], depth + 1), v[1])
    if k == "D":
        return "discr(%s)" % show(v[1], depth + 1)
    if k == "B":
        return "%s(%s, %s)" % (v[1], show(v[2], depth + 1), show(v[3], depth + 1))
    if k == "U":
        return "%s(%s)" % (v[1], show(v[2], depth + 1))
    if k == "Br":
        return "branch(%s)" % show(v[2], depth + 1)
    if k == "Cl":
        return "closure[%s]" % v[1].split("::", 1)[-1]
    if k == "O":
        return "%s{%s}" % (show(v[1], depth + 1), ", ".join("%s=%s" % (kk, show(x, depth + 1)) for kk, x in v[2]))
    return "?%s" % (v[1],)


def show_atom(a):
    if a[0] == "variant":
        return "variant(%s)" % show(a[1])
    if a[0] == "call":
        return "%s(%s)" % (a[1].split("::")[-1], ", ".join(show(x) for x in a[2]))
    if a[0] == "call#":
        return "%s#%d(%s)" % (a[2].split("::")[-1], a[1], ", ".join(show(x) for x in a[3]))
    if a[0] == "bin":
        return "%s(%s, %s)" % (a[1], show(a[2]), show(a[3]))
    if a[0] == "val":
        return show(a[1])
    if a[0] == "int":
        return "int(%s)" % show(a[1])
    return str(a)


def show_path(p, interesting=None):
    conds = " ∧ ".join("%s=%s" % (show_atom(a), o) for a, o, _bb in p.atoms)
    evs = "; ".join("%s(%s)" % (e["callee"].split("::")[-1], ", ".join(show(x) for x in e["args"]))
                    for e in p.events if interesting is None or interesting(e))
    return "[%s] %s  ⇒ {%s}  ret=%s" % (p.end[0], conds, evs, show(p.ret) if p.ret is not None else "-")
