"""Normalised control-flow graph over a MIR body dump.

Normalisation (DESIGN.md 1.3): cleanup blocks, unwind edges, FalseEdge imaginary targets,
assertion-failure edges are removed, and the `Pending -> Yield -> loop` back-edge of every
`.await` is cut (Yield has no successor), so that code that awaits is straight-line.
"""
from collections import defaultdict


class Cfg:
    def __init__(self, body):
        self.body = body
        self.blocks = body["blocks"]
        n = len(self.blocks)
        self.n = n
        self.succ = [[] for _ in range(n)]  # list of (target, label)
        for i, bl in enumerate(self.blocks):
            if bl["cleanup"]:
                continue
            t = bl["t"]
            if t is None:
                continue
            k = t["k"]
            if k == "goto" or k == "falseedge" or k == "falseunwind" or k == "drop" or k == "assert":
                self.succ[i].append((t["t"], None))
            elif k == "call":
                if t["t"] is not None:
                    self.succ[i].append((t["t"], None))
            elif k == "switch":
                seen = set()
                for v, b in t["targets"]:
                    self.succ[i].append((b, v))
                    seen.add(v)
                self.succ[i].append((t["otherwise"], "otherwise"))
            elif k == "yield":
                pass  # cut: see module doc
            else:
                pass
        # reachable set from entry
        self.reach = self._reach_from(0, set())
        self.pred = [[] for _ in range(n)]
        for i in self.reach:
            for (j, lab) in self.succ[i]:
                self.pred[j].append((i, lab))
        self._dom = None
        self._pdom = None

    def succs(self, i):
        return [j for (j, _l) in self.succ[i]]

    def preds(self, i):
        return [j for (j, _l) in self.pred[i]]

    def _reach_from(self, start, removed, removed_edges=()):
        seen = set()
        if start in removed:
            return seen
        work = [start]
        seen.add(start)
        while work:
            i = work.pop()
            for (j, lab) in self.succ[i]:
                if j in removed or j in seen:
                    continue
                if (i, j, lab) in removed_edges or (i, j) in removed_edges:
                    continue
                seen.add(j)
                work.append(j)
        return seen

    def reachable(self, a, removed=(), removed_edges=()):
        """blocks reachable from block a (including a) avoiding `removed` blocks"""
        return self._reach_from(a, set(removed), set(removed_edges))

    def reachable_after(self, a, removed=(), removed_edges=()):
        """blocks reachable by leaving block a (a itself only if on a cycle)"""
        out = set()
        removed = set(removed)
        for (j, lab) in self.succ[a]:
            if j in removed:
                continue
            if (a, j, lab) in removed_edges or (a, j) in removed_edges:
                continue
            out |= self._reach_from(j, removed, set(removed_edges))
        return out

    def exits(self):
        """blocks with Return terminator (normal exits)"""
        return [i for i in self.reach if self.blocks[i]["t"] and self.blocks[i]["t"]["k"] == "return"]

    # --- dominators (iterative, Cooper-Harvey-Kennedy on RPO) ---
    def rpo(self):
        order = []
        seen = set()
        stack = [(0, iter(self.succs(0)))]
        seen.add(0)
        while stack:
            node, it = stack[-1]
            adv = False
            for j in it:
                if j not in seen:
                    seen.add(j)
                    stack.append((j, iter(self.succs(j))))
                    adv = True
                    break
            if not adv:
                order.append(node)
                stack.pop()
        order.reverse()
        return order

    def dominators(self):
        if self._dom is not None:
            return self._dom
        order = self.rpo()
        idx = {b: i for i, b in enumerate(order)}
        idom = {0: 0}
        changed = True
        while changed:
            changed = False
            for b in order[1:]:
                ps = [p for p in self.preds(b) if p in idom]
                if not ps:
                    continue
                new = ps[0]
                for p in ps[1:]:
                    a, c = p, new
                    while a != c:
                        while idx[a] > idx[c]:
                            a = idom[a]
                        while idx[c] > idx[a]:
                            c = idom[c]
                    new = a
                if idom.get(b) != new:
                    idom[b] = new
                    changed = True
        self._dom = idom
        return idom

    def dominates(self, a, b):
        """block a dominates block b (reflexive)"""
        idom = self.dominators()
        if b not in idom:
            return False
        x = b
        while True:
            if x == a:
                return True
            if x == 0:
                return a == 0
            x = idom[x]

    def edge_dominates(self, edge, b):
        """every path from entry to b uses edge (i, j[, label])"""
        r = self.reachable(0, removed_edges=[edge])
        return b in self.reach and b not in r

    def all_paths_through(self, a, b, via):
        """every path from a to b passes through some block in `via`"""
        r = self.reachable(a, removed=via)
        return b not in r or b in via

    def back_edges(self):
        dom = self.dominators()
        out = []
        for i in self.reach:
            for j in self.succs(i):
                if self.dominates(j, i):
                    out.append((i, j))
        return out

    def natural_loop(self, back_edge):
        i, h = back_edge
        body = {h, i}
        work = [i]
        while work:
            x = work.pop()
            if x == h:
                continue
            for p in self.preds(x):
                if p not in body:
                    body.add(p)
                    work.append(p)
        return body

    def loops(self):
        """header -> set of blocks (merged natural loops per header)"""
        out = defaultdict(set)
        for be in self.back_edges():
            out[be[1]] |= self.natural_loop(be)
        return dict(out)

    def dominated_by(self, h):
        return {b for b in self.reach if self.dominates(h, b)}

    def in_loop(self, b):
        return any(b in body for body in self.loops().values())

    # --- helpers over terminators ---
    def calls(self):
        for i in sorted(self.reach):
            t = self.blocks[i]["t"]
            if t and t["k"] == "call":
                yield i, t

    def term(self, i):
        return self.blocks[i]["t"]


def build(body):
    return Cfg(body)
