"""SY: structure of the sync loop: S1-S9 (C01 C02 C04), N1 N2 (C12), S5/S4 on the rebase
function.  Anchors are roles: "the taskdb function that calls Server::add_version" and "the
function that calls the transform on a &mut Vec<SyncOp>"."""
import re

from tc.facts import call_names, loc
from tc.flow import op_place, pproj
from tc.sym import SymExec, show, show_path
from tc.util import (
    agg_sites,
    bool_origin,
    calls_matching,
    cfg_of,
    flow_of,
    guards_of,
    is_plumbing,
    local_def,
    ref_base,
    switch_true_edges,
    where,
)
import r_transform

SERVER = "server::types::Server"
TXN = "storage::StorageTxn"
WRITEBACK = (TXN + "::add_operation", TXN + "::remove_operation")
REMOVAL_APIS = re.compile(r"^std::vec::Vec::<T, A>::(drain|truncate|split_off|clear|retain|retain_mut|remove|swap_remove|pop|dedup)|^std::collections::VecDeque.*::(drain|pop_front|clear|truncate)|^std::mem::(take|replace|swap)$")


def sync_fn(F):
    for (bp, bb) in F.callsites.get(SERVER + "::add_version", []):
        if bp.startswith("taskdb::") and not F.bodies[bp]["blocks"][bb]["cleanup"]:
            return F.bodies[bp]
    return None


def apply_op_fn(F):
    """role: the taskdb function (txn, &SyncOp) -> Result<()> that applies one synchronised operation"""
    import roles
    c = roles.fn_by_sig(F, r"dyn storage::StorageTxn.*&server::op::SyncOp$", r"std::result::Result<\(\),", r"^taskdb::")
    return c[0] if len(c) == 1 else None


def rebase_fn(F):
    tr = r_transform.find_transform(F)
    if len(tr) != 1:
        return None
    for (bp, bb) in F.callsites.get(tr[0]["path"], []):
        b = F.bodies[bp]
        owner = F.bodies.get(b.get("owner_fn") or "", b)
        return b
    return None


class SyncCtx:
    def __init__(self, F, R):
        self.F = F
        self.ok = False
        b = sync_fn(F)
        if b is None:
            R.missing("SY", "the taskdb function that calls Server::add_version")
            return
        self.b = b
        self.c = cfg_of(b)
        self.fl = flow_of(b)
        self.subj = b["owner_fn"]
        c = self.c
        self.add_version = calls_matching(c, re.escape(SERVER) + "::add_version$")
        self.gcv = calls_matching(c, re.escape(SERVER) + "::get_child_version$")
        self.setbase = calls_matching(c, re.escape(TXN) + "::set_base_version$")
        self.unsynced = calls_matching(c, re.escape(TXN) + "::unsynced_operations$")
        self.sync_complete = calls_matching(c, re.escape(TXN) + "::sync_complete$")
        self.commit = calls_matching(c, re.escape(TXN) + "::commit$")
        self.basever = calls_matching(c, re.escape(TXN) + "::base_version$")
        import roles
        mkf = roles.make_snapshot_fn(F)
        self.make_snapshot = calls_matching(c, "^" + re.escape(mkf) + "$") if mkf else []
        self.make_snapshot_fn = mkf
        self.add_snapshot = calls_matching(c, re.escape(SERVER) + "::add_snapshot$")
        rb = rebase_fn(F)
        self.rebase_body = rb
        self.rebase = []
        if rb is not None:
            owner = rb.get("owner_fn") or rb["path"]
            self.rebase = calls_matching(c, "^" + re.escape(owner) + "$")
        for name, lst, floor in (("Server::add_version", self.add_version, 1), ("Server::get_child_version", self.gcv, 1),
                                 ("StorageTxn::set_base_version", self.setbase, 2), ("StorageTxn::unsynced_operations", self.unsynced, 1),
                                 ("StorageTxn::sync_complete", self.sync_complete, 1), ("StorageTxn::commit", self.commit, 1),
                                 ("calls of the rebase function", self.rebase, 1)):
            if not R.floor("SY", name + " call sites in the sync function", len(lst), floor):
                return
        # X: the pending-operations container handed to the rebase function
        self.X = None
        if rb is not None:
            owner_b = F.bodies.get(rb.get("owner_fn") or "", rb)
            sig = owner_b.get("sig_in") or []
            idxs = [i for i, t in enumerate(sig) if t.replace(" ", "") == "&mutstd::vec::Vec<server::op::SyncOp>"]
            xs = set()
            for (i, t) in self.rebase:
                for ai in idxs:
                    if ai < len(t["args"]):
                        base = ref_base(self.fl, t["args"][ai])
                        if base is not None:
                            xs.add((ai, base))
            # the one that derives from unsynced_operations() other than through the rebase call
            rbs = {i for i, _t in self.rebase}
            for (ai, base) in sorted(xs):
                hit = False
                for d in self.fl.defs.get(base, ()):
                    if d[0] == "mutcall" and d[1] in rbs:
                        continue
                    s = self.fl.slice_def(d, stop=lambda t: TXN + "::unsynced_operations" in call_names(t), stop_locals={b_ for (_a, b_) in xs})
                    if any(r[0] == "call" and TXN + "::unsynced_operations" in r[2] for r in s.roots):
                        hit = True
                if hit:
                    self.X = base
                    self.X_arg = ai
        if self.X is None:
            R.missing("SY", "the container of pending operations passed by &mut to the rebase function and deriving from unsynced_operations()")
            return
        self.ok = True

    def is_unsynced(self, t):
        return TXN + "::unsynced_operations" in call_names(t)

    def x_mutations(self):
        """blocks that mutate X: whole assignments and calls passing &mut X"""
        out = []
        for d in self.fl.defs.get(self.X, ()):
            out.append(d)
        return out

    def emptiness_tests(self):
        """[(switch bb, true_edges)] for tests `X.is_empty()` / `X.len() == 0`"""
        out = []
        c, fl = self.c, self.fl
        for s in sorted(c.reach):
            t = c.term(s)
            if not t or t["k"] != "switch":
                continue
            bo = bool_origin(fl, t["o"])
            if bo and any(n.endswith("::is_empty") for n in call_names(bo[1])):
                if bo[1]["args"] and ref_base(fl, bo[1]["args"][0]) == self.X:
                    out.append((s, switch_true_edges(c, s, bo[2])))
                continue
            # len() == 0
            p = op_place(t["o"])
            d = local_def(fl, p["l"]) if p else None
            if d and d[0] == "rv" and d[1]["k"] == "bin" and d[1]["op"] in ("Eq", "Ne"):
                a, bb_ = d[1]["a"], d[1]["b"]
                for x, y in ((a, bb_), (bb_, a)):
                    if "k" in y and str(y["k"].get("val")) == "0":
                        dx = local_def(fl, op_place(x)["l"]) if op_place(x) else None
                        if dx and dx[0] == "call" and any(n.endswith("::len") for n in call_names(dx[2])) and ref_base(fl, dx[2]["args"][0]) == self.X:
                            neg = d[1]["op"] == "Ne"
                            out.append((s, switch_true_edges(c, s, neg)))
        return out


def _ctx(F, R):
    key = ("syncctx", id(F))
    if not hasattr(F, "_syncctx"):
        F._syncctx = SyncCtx(F, R)
    elif not F._syncctx.ok:
        # replay the anchor failure into this report too
        F._syncctx = SyncCtx(F, R)
    return F._syncctx


def rule_S1(F, R):
    R.begin("S1", "no path from a set_base_version call to a later unsynced_operations read without an operation write-back: pending operations are relative to the old base and must not be re-read as if relative to the new one")
    x = _ctx(F, R)
    if not x.ok:
        return
    c = x.c
    wb = {i for i, t in c.calls() if any(n in WRITEBACK for n in call_names(t))}
    for (i, t) in x.setbase:
        r = c.reachable_after(i, removed=wb)
        bad = [u for (u, _t) in x.unsynced if u in r]
        if bad:
            R.violation("S1", x.subj, "unsynced_operations-reread-after-set_base_version",
                        "unsynced_operations() at %s can execute after set_base_version() at %s in the same transaction: operations that already lost a conflict (or were dropped) during the pull are read again and re-sent"
                        % (loc(c.term(bad[0])["sp"]), loc(t["sp"])), where(x.b, bad[0]))
        else:
            R.ok("S1", "no re-read reachable after set_base_version", where(x.b, i))


def rule_S2(F, R):
    R.begin("S2", "every pending operation is in the rebased container at every rebase: no definition of that container from unsynced_operations-derived data is reachable after a rebase call")
    x = _ctx(F, R)
    if not x.ok:
        return
    c, fl = x.c, x.fl
    n = 0
    for d in fl.defs.get(x.X, ()):
        if d[0] == "mutcall" and d[1] in {i for i, _t in x.rebase}:
            continue
        s = fl.slice_def(d, stop=x.is_unsynced, stop_locals={x.X})
        derives = any(r[0] == "call" and x.is_unsynced(c.term(r[1])) for r in s.roots)
        if not derives:
            continue
        n += 1
        late = [i for (i, _t) in x.rebase if d[1] in c.reachable_after(i)]
        if late:
            R.violation("S2", x.subj, "pending-ops-enter-container-after-rebase",
                        "the container rebased by %s is (re)filled at %s from unsynced_operations-derived data after a rebase at %s may already have run: operations held elsewhere (lazy iterator, pre-cut batches) are not transformed against the incoming version and are later sent stale"
                        % (x.rebase_body["owner_fn"], loc(_def_sp(x.b, d)), loc(c.term(late[0])["sp"])), where(x.b, d[1]))
        else:
            R.ok("S2", "container filled from unsynced_operations before any rebase", where(x.b, d[1]))
    R.floor("S2", "definitions of the pending container from unsynced_operations()", n, 1)
    # and what is sent derives from the container only
    for (i, t) in x.add_version:
        s = fl.slice_operand(t["args"][2], stop=x.is_unsynced, stop_locals={x.X})
        if any(r[0] == "call" and x.is_unsynced(c.term(r[1])) for r in s.roots):
            R.violation("S2", x.subj, "history-segment-bypasses-rebased-container",
                        "the history segment sent by add_version derives from unsynced_operations() by a route that does not pass through the rebased container", where(x.b, i))
        elif not any(r[0] == "local" and r[1] == x.X for r in s.roots):
            R.violation("S2", x.subj, "history-segment-not-from-container",
                        "the history segment sent by add_version does not derive from the rebased container of pending operations", where(x.b, i))
        else:
            R.ok("S2", "history segment derives from the rebased container only", where(x.b, i))


def _def_sp(b, d):
    if d[0] == "assign":
        return b["blocks"][d[1]]["s"][d[2]]["sp"]
    return b["blocks"][d[1]]["t"]["sp"]


def rule_S3(F, R):
    R.begin("S3", "sync_complete (which marks every unsynchronised operation as synchronised) is reachable only through the `empty` outcome of an emptiness test on the pending container")
    x = _ctx(F, R)
    if not x.ok:
        return
    c = x.c
    tests = x.emptiness_tests()
    R.floor("S3", "emptiness tests on the pending container", len(tests), 1)
    edges = [e for (_s, es) in tests for e in es]
    r = c.reachable(0, removed_edges=edges)
    for (i, t) in x.sync_complete:
        if i in r:
            R.violation("S3", x.subj, "sync_complete-without-empty-pending",
                        "sync_complete() at %s is reachable on a path where the pending operations were not found empty: operations never accepted by the server would be marked synchronised (silent loss)" % loc(t["sp"]), where(x.b, i))
        else:
            R.ok("S3", "sync_complete edge-dominated by pending.is_empty()", where(x.b, i))
    # sync_complete is followed only by commit
    for (i, t) in x.sync_complete:
        after = c.reachable_after(i)
        bad = []
        for j in after:
            tt = c.term(j)
            if tt and tt["k"] == "call" and not is_plumbing(tt):
                for n in call_names(tt):
                    if (n.startswith(TXN + "::") and not n.endswith("::commit")) or n.startswith(SERVER + "::"):
                        bad.append((j, n))
        if bad:
            R.violation("S3", x.subj, "calls-after-sync_complete", "after sync_complete() the transaction still calls %s" % bad[0][1], where(x.b, bad[0][0]))
        else:
            R.ok("S3", "sync_complete followed only by commit", where(x.b, i))


def rule_S9(F, R):
    R.begin("S9", "on the accepted arm the accepted batch is removed from the pending container before the next rebase, emptiness test or snapshot")
    x = _ctx(F, R)
    if not x.ok:
        return
    c, fl = x.c, x.fl
    arms = _result_arms(x)
    if not arms.get("Ok"):
        R.missing("S9", "the AddVersionResult::Ok arm")
        return
    muts = set()
    for d in fl.defs.get(x.X, ()):
        if d[0] == "mutcall" and any(REMOVAL_APIS.search(n) for n in call_names(d[4])):
            muts.add(d[1])
        elif d[0] in ("assign", "call") and not d[3]:
            muts.add(d[1])
    muts -= {i for i, _t in x.rebase}
    targets = {i for i, _t in x.rebase} | {s for (s, _e) in x.emptiness_tests()} | {i for i, _t in x.make_snapshot} | {i for i, _t in x.sync_complete}
    # P: where the sent segment is read out of the container
    P = set()
    for (i, t) in x.add_version:
        sl = fl.slice_operand(t["args"][2], stop_locals={x.X})
        for bb_, ct in sl.calls.items():
            if any(ref_base(fl, a) == x.X for a in ct["args"] if op_place(a) is not None):
                P.add(bb_)
    if not P:
        R.missing("S9", "the point where the history segment is taken from the pending container")
        return
    for (sw, j, lab) in arms["Ok"]:
        # was the batch already removed between the cut and this arm?
        removed_before = all(j not in c.reachable_after(p, removed=muts) or p in muts for p in P)
        if removed_before:
            R.ok("S9", "batch moved out of the container when it was cut", where(x.b, j))
            # then a rejected batch has to be put back before the container is used again
            reins = set()
            for d in fl.defs.get(x.X, ()):
                if d[1] in {i for i, _t in x.rebase}:
                    continue
                if d[0] == "mutcall" and not any(REMOVAL_APIS.search(n) for n in call_names(d[4])):
                    reins.add(d[1])
                elif d[0] in ("assign", "call") and not d[3]:
                    reins.add(d[1])
            for (sw2, j2, lab2) in arms.get("ExpectedParentVersion", []):
                r2 = c.reachable(j2, removed=reins)
                hit2 = sorted(targets & r2)
                if hit2:
                    R.violation("S9", x.subj, "rejected-batch-dropped",
                                "the batch is taken out of the pending container before the server answers, and after a rejection %s is reachable without the batch having been put back: the rejected operations are never sent and are then marked synchronised"
                                % loc(c.term(hit2[0])["sp"]), where(x.b, j2))
                else:
                    R.ok("S9", "rejected batch re-inserted before the container is used again", where(x.b, j2))
            continue
        r = c.reachable(j, removed=muts)
        hit = sorted(targets & r)
        if hit:
            R.violation("S9", x.subj, "accepted-batch-not-removed",
                        "after the server accepted a version the pending container can reach %s without the accepted operations having been removed from it: they would be rebased against their own descendants or sent again"
                        % loc(c.term(hit[0])["sp"]), where(x.b, j))
        else:
            R.ok("S9", "accepted operations removed before next use of the container", where(x.b, j))


AT_END = re.compile(r"^std::vec::Vec::<T, A>::(push|append|extend_from_slice|extend_from_within)$|^std::iter::Extend::extend$|^std::collections::VecDeque.*::(push_back|append)$")


def rule_S10(F, R):
    R.begin("S10", "operations taken from the pending container are never re-inserted at its end (that would change the order in which operations are sent)")
    x = _ctx(F, R)
    if not x.ok:
        return
    c, fl = x.c, x.fl
    n = 0
    for d in fl.defs.get(x.X, ()):
        if d[0] != "mutcall":
            continue
        n += 1
        t = d[4]
        if not any(AT_END.search(nm) for nm in call_names(t)):
            continue
        for ai, a in enumerate(t["args"]):
            if ai == d[2]:
                continue
            sl = fl.slice_operand(a, stop_locals={x.X})
            if any(r[0] == "local" and r[1] == x.X for r in sl.roots):
                R.violation("S10", x.subj, "pending-ops-reappended", "%s at %s appends operations that were taken out of the pending container back at its end: with more operations pending behind them the order of operations changes" % (call_names(t)[0], loc(t["sp"])), where(x.b, d[1]))
    R.ok("S10", "no re-append of pending operations (%d mutation sites examined)" % n, where(x.b))


def _result_arms(x):
    """edges of the switch on the discriminant of the AddVersionResult: {'Ok': [...], 'ExpectedParentVersion': [...]}"""
    c, fl = x.c, x.fl
    out = {}
    av = {i for i, _t in x.add_version}
    for s in sorted(c.reach):
        t = c.term(s)
        if not t or t["k"] != "switch":
            continue
        p = op_place(t["o"])
        d = local_def(fl, p["l"]) if p else None
        if not d or d[0] != "discr" or not (d[2].get("adt") or "").endswith("AddVersionResult"):
            continue
        variants = dict((v, n) for v, n in d[2]["variants"])
        listed = set()
        for (j, lab) in c.succ[s]:
            if lab != "otherwise":
                out.setdefault(variants.get(lab), []).append((s, j, lab))
                listed.add(variants.get(lab))
        rest = [n for n in variants.values() if n not in listed]
        for (j, lab) in c.succ[s]:
            if lab == "otherwise" and len(rest) == 1:
                out.setdefault(rest[0], []).append((s, j, lab))
    return out


def rule_S6(F, R):
    R.begin("S6", "base-version bookkeeping: set_base_version and the next request's parent derive from the version_id just applied / just accepted (never parent_version_id); after acceptance and after each applied version the base is advanced before the next request")
    x = _ctx(F, R)
    if not x.ok:
        return
    c, fl = x.c, x.fl
    av = {i for i, _t in x.add_version}
    gc = {i for i, _t in x.gcv}
    bv = {i for i, _t in x.basever}
    stop = lambda t: any(n in (SERVER + "::add_version", SERVER + "::get_child_version", TXN + "::base_version") for n in call_names(t))

    def classify(roots):
        """-> (ok, description)"""
        bad = []
        kinds = set()
        for r in roots:
            if r[0] == "call":
                if r[1] in gc:
                    fields = [e for e in r[3] if e[0] == "f"]
                    names = [e[2] for e in fields]
                    if names and names[-1] == "version_id":
                        kinds.add("child.version_id")
                    else:
                        bad.append("get_child_version result field %s" % (names[-1] if names else "?"))
                elif r[1] in av:
                    dcs = [e[1] for e in r[3] if e[0] == "dc"]
                    if "Ok" in dcs:
                        kinds.add("accepted id")
                    else:
                        bad.append("add_version result %s" % (dcs or "?"))
                elif r[1] in bv:
                    kinds.add("stored base")
                else:
                    bad.append("call %s" % r[2])
            elif r[0] == "const" and r[2]:
                continue
            elif r[0] in ("callnode",):
                bad.append("computed by %s" % r[2])
            elif r[0] in ("upvar", "param", "const", "opaque", "closure"):
                bad.append("%s %s" % (r[0], r[1]))
        return (not bad, sorted(kinds), bad)

    for (i, t) in x.setbase:
        s = fl.slice_operand(t["args"][1], stop=stop)
        ok, kinds, bad = classify(s.roots)
        kinds = [k for k in kinds if k != "stored base"]
        if not ok or not kinds:
            R.violation("S6", x.subj, "set_base_version-arg", "set_base_version at %s is given %s instead of the id of the version just applied or accepted" % (loc(t["sp"]), bad or "nothing version-derived"), where(x.b, i))
        else:
            R.ok("S6", "set_base_version(%s)" % "/".join(kinds), where(x.b, i))
    for (lst, ai, name) in ((x.gcv, 1, "get_child_version"), (x.add_version, 1, "add_version")):
        for (i, t) in lst:
            s = fl.slice_operand(t["args"][ai], stop=stop)
            ok, kinds, bad = classify(s.roots)
            if not ok or "stored base" not in kinds:
                R.violation("S6", x.subj, "%s-parent-arg" % name, "the parent version passed to %s derives from %s" % (name, bad or kinds), where(x.b, i))
            else:
                R.ok("S6", "%s(parent <- %s)" % (name, "/".join(kinds)), where(x.b, i))
    # (c) after Ok(id): set_base_version(accepted id) before next request / exit
    arms = _result_arms(x)
    sb_ok = set()
    sb_gcv = set()
    for (i, t) in x.setbase:
        s = fl.slice_operand(t["args"][1], stop=stop)
        ok, kinds, bad = classify(s.roots)
        if "accepted id" in kinds:
            sb_ok.add(i)
        if "child.version_id" in kinds:
            sb_gcv.add(i)
    nxt = av | gc | {i for i, _t in x.sync_complete} | {i for i, _t in x.make_snapshot}
    for (sw, j, lab) in arms.get("Ok", []):
        r = c.reachable(j, removed=sb_ok)
        hit = sorted(nxt & r)
        if hit:
            R.violation("S6", x.subj, "accepted-version-not-recorded", "after AddVersionResult::Ok the next request / snapshot / sync_complete at %s is reachable without set_base_version(accepted id)" % loc(c.term(hit[0])["sp"]), where(x.b, j))
        else:
            R.ok("S6", "Ok(id) -> set_base_version(id) before anything else", where(x.b, j))
    if not arms.get("Ok"):
        R.missing("S6", "the AddVersionResult::Ok arm")
    # (d) after each rebase: set_base_version(child.version_id) before the next request
    for (i, t) in x.rebase:
        r = c.reachable_after(i, removed=sb_gcv)
        hit = sorted((av | gc | {k for k, _t in x.sync_complete}) & r)
        if hit:
            R.violation("S6", x.subj, "applied-version-not-recorded", "after a pulled version is applied, %s is reachable without set_base_version(version_id)" % loc(c.term(hit[0])["sp"]), where(x.b, i))
        else:
            R.ok("S6", "applied version -> set_base_version(version_id) before the next request", where(x.b, i))
    # the rebase is given the version obtained from this get_child_version's history_segment
    for (i, t) in x.rebase:
        args = t["args"]
        seen = False
        for a in args:
            s = fl.slice_operand(a, stop=stop)
            for r in s.roots:
                if r[0] == "call" and r[1] in gc:
                    names = [e[2] for e in r[3] if e[0] == "f"]
                    if names and names[-1] == "history_segment":
                        seen = True
        if not seen:
            R.violation("S6", x.subj, "rebase-not-on-pulled-segment", "the rebase call does not receive the history_segment of the pulled version", where(x.b, i))
        else:
            R.ok("S6", "rebase(history_segment of the pulled version)", where(x.b, i))


def rule_S7(F, R):
    R.begin("S7", "Error::OutOfSync is constructed only under an equality between the current rejection's demanded parent and a variable that holds an *earlier* rejection's demand (initially None), so a first rejection never produces it")
    x = _ctx(F, R)
    if not x.ok:
        return
    c, fl = x.c, x.fl
    sites = agg_sites(c, "errors::Error", "OutOfSync")
    av = {i for i, _t in x.add_version}
    stop = lambda t: SERVER + "::add_version" in call_names(t)
    back = set(c.back_edges())
    for (i, j, st) in sites:
        okg = None
        why = "no guarding comparison with an earlier rejection found"
        for (s, labs) in guards_of(c, i):
            t = c.term(s)
            bo = bool_origin(fl, t["o"])
            if not bo or not any(re.search(r"PartialEq::(eq|ne)$", n) for n in call_names(bo[1])):
                continue
            # polarity: the OutOfSync side must be the `equal` outcome
            isne = any(n.endswith("::ne") for n in call_names(bo[1]))
            true_edges = switch_true_edges(c, s, bo[2] != isne)
            if not all(lab in [e[2] for e in true_edges] for lab in labs):
                why = "OutOfSync is on the `not equal` side of the comparison"
                continue
            a0, a1 = bo[1]["args"][0], bo[1]["args"][1]
            sides = []
            for a in (a0, a1):
                sl = fl.slice_operand(a, stop=stop)
                cur = all((r[0] == "call" and r[1] in av and any(e[0] == "dc" and e[1] == "ExpectedParentVersion" for e in r[3])) for r in sl.roots if r[0] != "const") and any(r[0] == "call" for r in sl.roots)
                carried = _carried_option(x, sl)
                sides.append((cur, carried, sl))
            # one side current (not through a carried option), other side carried
            good = None
            for (sa, sb) in ((sides[0], sides[1]), (sides[1], sides[0])):
                if sa[0] and not sa[1] and sb[1]:
                    good = sb[1]
            if not good:
                why = "the comparison is not between the current rejection's parent and a variable carried from an earlier rejection"
                continue
            V = good
            # V's Some-definitions must come after the test within an iteration
            early = []
            for d in fl.defs.get(V, ()):
                ra = _resolve_agg(fl, d)
                if ra is not None and ra.get("variant") == "Some":
                    r = c.reachable(d[1], removed_edges=back)
                    if s in r:
                        early.append(d[1])
            if early:
                why = "the carried variable is updated at %s before the test in the same iteration, so the first rejection compares equal to itself" % loc(_bbsp(x.b, early[0]))
                continue
            okg = s
            break
        if okg is None:
            R.violation("S7", x.subj, "OutOfSync-not-on-repeated-demand", "Error::OutOfSync at %s: %s" % (loc(st["sp"]), why), where(x.b, sp=st["sp"]))
        else:
            R.ok("S7", "OutOfSync only when the same parent is demanded twice", where(x.b, sp=st["sp"]))
    R.count("outofsync_sites", len(sites))


def _bbsp(b, bb):
    t = b["blocks"][bb]["t"]
    return t["sp"] if t else b["sp"]


def _carried_option(x, sl):
    """an Option local visited by the slice whose definitions are None and Some(payload of an
    ExpectedParentVersion rejection) only -> that local"""
    fl, c = x.fl, x.c
    av = {i for i, _t in x.add_version}
    for l in sl.locals:
        if not fl.local_ty(l).startswith("std::option::Option<"):
            continue
        ds = [d for d in fl.defs.get(l, ()) if d[0] in ("assign", "call") and not d[3]]
        if len(ds) < 2:
            continue
        kinds = set()
        ok = True
        for d in ds:
            r = _resolve_agg(fl, d)
            if r is not None and r.get("adt", "").endswith("option::Option"):
                if r["variant"] == "None":
                    kinds.add("None")
                else:
                    s2 = fl.slice_operand(r["ops"][0], stop=lambda t: SERVER + "::add_version" in call_names(t))
                    if all(r_[0] == "call" and r_[1] in av and any(e[0] == "dc" and e[1] == "ExpectedParentVersion" for e in r_[3]) for r_ in s2.roots if r_[0] != "const"):
                        kinds.add("Some")
                    else:
                        ok = False
            else:
                ok = False
        if ok and kinds == {"None", "Some"}:
            return l
    return None


def rule_S8(F, R):
    R.begin("S8", "from the rejection arm every path either returns or pulls (get_child_version) before it sends again (add_version)")
    x = _ctx(F, R)
    if not x.ok:
        return
    c = x.c
    arms = _result_arms(x)
    rej = arms.get("ExpectedParentVersion", [])
    if not rej:
        R.missing("S8", "the AddVersionResult::ExpectedParentVersion arm")
        return
    gc = {i for i, _t in x.gcv}
    for (sw, j, lab) in rej:
        r = c.reachable(j, removed=gc)
        bad = [i for (i, _t) in x.add_version if i in r]
        if bad:
            R.violation("S8", x.subj, "resend-without-pull", "after a rejection add_version at %s is reachable again without an intervening get_child_version" % loc(c.term(bad[0])["sp"]), where(x.b, j))
        else:
            R.ok("S8", "rejection -> pull before next add_version", where(x.b, j))


def rule_N1(F, R):
    R.begin("N1", "every make_snapshot in the sync function is reachable only through the `empty` outcome of an emptiness test on the pending container, evaluated after the accepted batch was removed")
    x = _ctx(F, R)
    if not x.ok:
        return
    c, fl = x.c, x.fl
    if not R.floor("N1", "make_snapshot call sites in the sync function", len(x.make_snapshot), 1):
        return
    tests = x.emptiness_tests()
    edges = [e for (_s, es) in tests for e in es]
    r = c.reachable(0, removed_edges=edges)
    muts = set()
    for d in fl.defs.get(x.X, ()):
        if d[0] == "mutcall" and any(REMOVAL_APIS.search(n) for n in call_names(d[4])):
            muts.add(d[1])
    for (i, t) in x.make_snapshot:
        if i in r:
            R.violation("N1", x.subj, "snapshot-with-pending-operations",
                        "make_snapshot() at %s is reachable while local operations may still be pending: the snapshot would contain changes that are not part of the version it is labelled with" % loc(t["sp"]), where(x.b, i))
            continue
        # the guarding test comes after the removal of the accepted batch
        gt = [s for (s, es) in tests if i not in c.reachable(0, removed_edges=es)]
        okorder = any(any(c.dominates(a, m) for (a, _t) in x.add_version) and c.dominates(m, s) for m in muts for s in gt)
        if not okorder:
            R.violation("N1", x.subj, "snapshot-emptiness-tested-before-removal", "the emptiness test guarding make_snapshot() is not preceded by the removal of the accepted batch", where(x.b, i))
        else:
            R.ok("N1", "make_snapshot only with nothing pending", where(x.b, i))
    # label: add_snapshot(version) gets the accepted id
    av = {i for i, _t in x.add_version}
    stop = lambda t: SERVER + "::add_version" in call_names(t)
    for (i, t) in x.add_snapshot:
        s = fl.slice_operand(t["args"][1], stop=stop)
        good = all((r[0] == "call" and r[1] in av and any(e[0] == "dc" and e[1] == "Ok" for e in r[3])) for r in s.roots if r[0] != "const") and any(r[0] == "call" for r in s.roots)
        if not good:
            R.violation("N1", x.subj, "snapshot-label", "add_snapshot is labelled with something other than the id just returned by add_version", where(x.b, i))
        else:
            R.ok("N1", "add_snapshot(accepted id, ..)", where(x.b, i))
        s2 = fl.slice_operand(t["args"][2], stop=lambda t: x.make_snapshot_fn is not None and x.make_snapshot_fn in call_names(t))
        if not any(r[0] == "call" and r[1] in {k for k, _t in x.make_snapshot} for r in s2.roots):
            R.violation("N1", x.subj, "snapshot-payload", "add_snapshot payload does not derive from make_snapshot", where(x.b, i))
        else:
            R.ok("N1", "add_snapshot(.., make_snapshot())", where(x.b, i))


def rule_N2(F, R):
    R.begin("N2", "urgency gate: make_snapshot iff urgency >= threshold, threshold High when avoid_snapshots else Low; SnapshotUrgency variants are declared None < Low < High")
    x = _ctx(F, R)
    if not x.ok:
        return
    c, fl = x.c, x.fl
    adt = None
    for p, a in F.adts.items():
        if p.endswith("SnapshotUrgency"):
            adt = a
    if adt is None:
        R.missing("N2", "enum SnapshotUrgency")
        return
    order = [v["name"] for v in adt["variants"]]
    if order != ["None", "Low", "High"]:
        R.violation("N2", adt["path"], "variant-order", "SnapshotUrgency variants are declared %s; the derived ordering used by the gate needs None < Low < High" % order, loc(adt["sp"]))
    else:
        R.ok("N2", "SnapshotUrgency declared None, Low, High", loc(adt["sp"]))
    # the derived PartialOrd must be the derive (body from expansion) -> exists in impl table
    av = {i for i, _t in x.add_version}
    stop = lambda t: SERVER + "::add_version" in call_names(t)
    for (i, t) in x.make_snapshot:
        found = None
        for (s, labs) in guards_of(c, i):
            tt = c.term(s)
            bo = bool_origin(fl, tt["o"])
            if not bo:
                continue
            names = call_names(bo[1])
            m = None
            for n in names:
                mm = re.search(r"PartialOrd::(ge|le|gt|lt)$", n)
                if mm:
                    m = mm.group(1)
            if not m:
                continue
            a0, a1 = bo[1]["args"]
            s0 = fl.slice_operand(a0, stop=stop)
            s1 = fl.slice_operand(a1, stop=stop)
            urg0 = any(r[0] == "call" and r[1] in av for r in s0.roots)
            urg1 = any(r[0] == "call" and r[1] in av for r in s1.roots)
            thr_side = None
            if urg0 and not urg1:
                thr_side, thr_op, rel = s1, a1, m
            elif urg1 and not urg0:
                thr_side, thr_op, rel = s0, a0, {"ge": "le", "le": "ge", "gt": "lt", "lt": "gt"}[m]
            else:
                continue
            # which outcome reaches make_snapshot
            true_edges = switch_true_edges(c, s, bo[2])
            reach_true = all(lab in [e[2] for e in true_edges] for lab in labs)
            # rel is now "urgency REL threshold"; admissible: ge on true edge, lt on false edge
            if (rel == "ge" and reach_true) or (rel == "lt" and not reach_true):
                found = (s, thr_side, thr_op)
            else:
                R.violation("N2", x.subj, "urgency-gate-relation", "make_snapshot() is taken when urgency %s threshold is %s" % (rel, reach_true), where(x.b, s))
                found = False
            break
        if found is None:
            R.violation("N2", x.subj, "no-urgency-gate", "make_snapshot() is not guarded by a comparison of the server's snapshot urgency with a threshold", where(x.b, i))
            continue
        if found is False:
            continue
        s, thr_side, thr_op = found
        # threshold table
        tl = ref_base(fl, thr_op)
        rows = {}
        for d in fl.defs.get(tl, ()):
            if d[0] == "assign" and d[4]["k"] == "agg" and d[4].get("adt", "").endswith("SnapshotUrgency"):
                # which outcome of avoid_snapshots guards this def?
                for (gs, labs) in guards_of(c, d[1]):
                    gt = c.term(gs)
                    sl = fl.slice_operand(gt["o"])
                    if "avoid_snapshots" in sl.upvars() or "avoid_snapshots" in {fl.local_name(l) for l in sl.locals}:
                        val = all(lab != "0" for lab in labs)
                        rows[val] = d[4]["variant"]
        if rows != {True: "High", False: "Low"}:
            R.violation("N2", x.subj, "threshold-table", "snapshot threshold table is %s, documented: avoid_snapshots -> High, otherwise Low" % rows, where(x.b, s))
        else:
            R.ok("N2", "threshold: avoid_snapshots ? High : Low; gate urgency >= threshold", where(x.b, s))


def rule_T1_sync(F, R):
    R.begin("T1s", "in the sync function every commit is preceded by sync_complete (only the complete after-state is ever committed), is the last storage or server interaction, and no second commit can follow it")
    x = _ctx(F, R)
    if not x.ok:
        return
    c = x.c
    for (ci, ct) in x.commit:
        key = "commit@%s" % ("after-sync_complete" if any(c.dominates(i, ci) for (i, _t) in x.sync_complete) else "without-sync_complete")
        if c.in_loop(ci):
            R.violation("T1s", x.subj, "commit-in-loop", "commit is inside a loop", where(x.b, ci))
            continue
        after = c.reachable_after(ci)
        bad = []
        for j in after:
            tt = c.term(j)
            if tt and tt["k"] == "call":
                for n in call_names(tt):
                    if n.startswith(TXN + "::") or n.startswith(SERVER + "::"):
                        bad.append((j, n))
        if bad:
            R.violation("T1s", x.subj, "interaction-after-commit", "%s is reachable after commit()" % bad[0][1], where(x.b, bad[0][0]))
        else:
            R.ok("T1s", "commit is the last storage/server interaction", where(x.b, ci))
        if not any(c.dominates(i, ci) for (i, _t) in x.sync_complete):
            R.violation("T1s", x.subj, "commit-without-sync_complete", "commit() at %s is reachable without sync_complete: a state that is neither the before- nor the after-state of the sync (base version advanced, pending operations not rebased/marked) would become durable" % loc(ct["sp"]), where(x.b, ci))
        else:
            R.ok("T1s", "sync_complete dominates commit", where(x.b, ci))


# ---------------------------------------------------------------------------------------
# rebase function: S4, S5

def rule_S5(F, R):
    R.begin("S5", "the Result of applying a transformed server operation is not unconditionally propagated out of the rebase loop (invalid operations must be tolerated)")
    rb = rebase_fn(F)
    if rb is None:
        R.missing("S5", "the function that calls the transform")
        return
    c = cfg_of(rb)
    fl = flow_of(rb)
    apf = apply_op_fn(F)
    aps = calls_matching(c, "^" + re.escape(apf) + "$") if apf else []
    if not R.floor("S5", "apply_op call sites in the rebase function", len(aps), 1):
        return
    apb = {i for i, _t in aps}
    stop = lambda t: apf in call_names(t)
    bad = False
    for (i, t) in c.calls():
        if "std::ops::Try::branch" in call_names(t):
            s = fl.slice_operand(t["args"][0], stop=stop)
            if any(r[0] == "call" and r[1] in apb for r in s.roots):
                R.violation("S5", rb["owner_fn"], "apply_op-error-propagated", "the error of apply_op is propagated with `?` out of the rebase loop: a legitimately invalid server operation would fail every sync", where(rb, i))
                bad = True
    if not bad:
        R.ok("S5", "apply_op result inspected, not propagated", where(rb, aps[0][0]))


def rule_S4(F, R):
    R.begin("S4", "rebase completeness: in one iteration of the inner loop every local operation is either transformed (and its surviving form kept) or kept unchanged; after the inner loop a surviving server operation is applied and recorded; the new list replaces the old")
    rb = rebase_fn(F)
    if rb is None:
        R.missing("S4", "the function that calls the transform")
        return
    c = cfg_of(rb)
    fl = flow_of(rb)
    tr = r_transform.find_transform(F)[0]["path"]
    trc = calls_matching(c, "^" + re.escape(tr) + "$")
    loops = c.loops()
    inner = None
    for h, body in loops.items():
        if any(i in body for i, _t in trc):
            if inner is None or len(body) < len(inner[1]):
                inner = (h, body)
    outer = None
    if inner:
        for h, body in loops.items():
            if h != inner[0] and inner[1] < body:
                if outer is None or len(body) < len(outer[1]):
                    outer = (h, body)
    if not inner or not outer:
        R.missing("S4", "two nested loops around the transform call in the rebase function")
        return
    # --- inner iteration table
    try:
        paths = SymExec(rb, c, region=inner[1], entry=inner[0]).run()
    except Exception as e:
        R.violation("S4", rb["owner_fn"], "inner-table-extraction", "cannot extract the inner loop's path table: %s" % e, where(rb))
        return
    iters = [p for p in paths if p.end[0] == "backedge"]
    R.count("s4_inner_paths", len(iters))
    n = 0
    for p in iters:
        n += 1
        evs = p.events
        trs = [e for e in evs if tr in e["names"]]
        pushes = [e for e in evs if any(nm.endswith("Vec::<T, A>::push") for nm in e["names"])]
        item = _loop_item(p)
        desc = show_path(p, interesting=lambda e: tr in e["names"] or any(nm.endswith("::push") for nm in e["names"]))
        if trs:
            # transformed: second result component must be pushed when Some
            e = trs[0]
            if not any(_mentions(a, item) for a in e["args"]):
                R.violation("S4", rb["owner_fn"], "transform-not-on-local-op", "the transform is not applied to the local operation of this iteration: %s" % desc, where(rb, e["bb"]))
                continue
            kept = [q for q in pushes if _mentions_call(q["args"][-1], e["id"])]
            # `list.extend(opt)` with the transform's Option keeps the operation exactly when it survived
            ext = [q for q in evs if any(nm.endswith("Extend::extend") for nm in q["names"]) and _mentions_call(q["args"][-1], e["id"])]
            some = _cond_on_call(p, e["id"])
            if some.get("None"):
                if pushes or ext:
                    R.violation("S4", rb["owner_fn"], "dropped-op-kept", "pushes although the transform dropped the local operation: %s" % desc, where(rb, e["bb"]))
                else:
                    R.ok("S4", "inner: " + desc[:160])
            elif not kept and not ext:
                R.violation("S4", rb["owner_fn"], "transformed-local-op-dropped", "a local operation that survives the transform is not kept: %s" % desc, where(rb, e["bb"]))
            elif not some.get("Some") and kept and not ext:
                R.violation("S4", rb["owner_fn"], "dropped-op-kept", "pushes the transform's result for the local operation without testing that it survived: %s" % desc, where(rb, e["bb"]))
            else:
                R.ok("S4", "inner: " + desc[:160])
        else:
            kept = [q for q in pushes if _mentions(q["args"][-1], item)]
            if not kept:
                R.violation("S4", rb["owner_fn"], "untouched-local-op-dropped", "a local operation that is not transformed (server operation already consumed) is not kept: %s" % desc, where(rb, p.blocks[-1]))
            else:
                R.ok("S4", "inner: " + desc[:160])
    R.floor("S4", "inner-loop iteration paths", n, 2)
    # --- outer tail: after the inner loop
    exits = sorted({j for i in inner[1] for j in c.succs(i) if j not in inner[1]})
    try:
        tails = []
        for e in exits:
            tails += SymExec(rb, c, region=outer[1] - inner[1], entry=e).run()
    except Exception as e:
        R.violation("S4", rb["owner_fn"], "outer-table-extraction", "cannot extract the outer tail's path table: %s" % e, where(rb))
        return
    tails = [p for p in tails if p.end[0] in ("backedge", "exit")]
    m = 0
    for p in tails:
        m += 1
        ap = [e for e in p.events if apply_op_fn(F) in e["names"]]
        pushes = [e for e in p.events if any(nm.endswith("Vec::<T, A>::push") for nm in e["names"])]
        some = [o for (a, o, _bb) in p.atoms if a[0] == "variant" and o in ("Some", "None")]
        desc = show_path(p, interesting=lambda e: apply_op_fn(F) in e["names"] or any(nm.endswith("::push") for nm in e["names"]))
        if some and some[0] == "Some":
            if not ap or not pushes:
                R.violation("S4", rb["owner_fn"], "surviving-server-op-not-applied", "a surviving server operation is not both applied and recorded: %s" % desc, where(rb, p.blocks[0]))
                continue
        R.ok("S4", "outer: " + desc[:160])
    R.floor("S4", "outer tail paths", m, 2)
    # order preservation: the new list starts empty and the inner loop walks the whole pending list in order
    pushes_in = [(i, c.term(i)) for i in sorted(inner[1]) if c.term(i) and c.term(i)["k"] == "call" and any(n.endswith("Vec::<T, A>::push") for n in call_names(c.term(i)))]
    newlists = {ref_base(fl, t["args"][0]) for (_i, t) in pushes_in}
    for nl in sorted(x for x in newlists if x is not None):
        bad = None
        for d in fl.defs.get(nl, ()):
            if d[0] == "mutcall":
                # push, or extend with an Option (appends at most one element at the end)
                is_opt_extend = any(n.endswith("Extend::extend") for n in call_names(d[4])) and len(d[4]["args"]) == 2 and op_place(d[4]["args"][1]) is not None and fl.local_ty(op_place(d[4]["args"][1])["l"]).startswith("std::option::Option<")
                if not any(n.endswith("Vec::<T, A>::push") for n in call_names(d[4])) and not is_opt_extend:
                    bad = "is also modified by %s" % call_names(d[4])[0]
                continue
            if d[0] == "call" and not d[3] and any(re.search(r"Vec::<T>::(new|with_capacity)$|Vec::<T, A>::(new_in|with_capacity_in)$", n) for n in call_names(d[4])):
                continue
            bad = "does not start as an empty vector (%s at %s)" % (d[0], loc(_def_sp(rb, d)))
        if bad:
            R.violation("S4", rb["owner_fn"], "rebased-list-not-built-in-order", "the rebased list %s: operations no longer keep the order in which they were made" % bad, where(rb))
        else:
            R.ok("S4", "rebased list is built from empty by pushes in iteration order", where(rb))
    hdr_calls = [(i, c.term(i)) for i in sorted(outer[1]) if c.term(i) and c.term(i)["k"] == "call" and any(n.endswith("IntoIterator::into_iter") for n in call_names(c.term(i))) and c.dominates(i, inner[0]) and i not in inner[1]]
    if hdr_calls:
        i, t = hdr_calls[-1]
        sl = fl.slice_operand(t["args"][0])
        badn = sorted({n for n in sl.call_names() if re.search(r"Iterator::(partition|filter|filter_map|rev|skip|take|step_by|skip_while|take_while)$|::(sort\w*|reverse|retain|dedup\w*)$", n)})
        owner_b2 = F.bodies.get(rb.get("owner_fn") or "", rb)
        from_param = any("Vec<server::op::SyncOp>" in fl.local_ty(l) and (1 <= l <= rb["argc"] or (rb["kind"] == "Closure")) for l in sl.locals) or "local_ops" in sl.upvars()
        if badn:
            R.violation("S4", rb["owner_fn"], "rebase-iterates-subset", "the inner rebase loop iterates the pending operations through %s: the others bypass the loop and their relative order changes" % badn[0], where(rb, i))
        else:
            R.ok("S4", "inner loop iterates the whole pending list in order", where(rb, i))
    # the new list replaces the old one: an assignment through the &mut Vec param from the vector pushed to
    owner_b = F.bodies.get(rb.get("owner_fn") or "", rb)
    replaced = False
    for i in sorted(outer[1] - inner[1]):
        for st in c.blocks[i]["s"]:
            if st["k"] == "assign" and st["l"]["p"] and st["l"]["p"][0] == "deref" and "Vec<server::op::SyncOp>" in fl.local_ty(st["l"]["l"]):
                replaced = True
    if not replaced:
        R.violation("S4", rb["owner_fn"], "new-list-not-installed", "the rebased list is not written back through the &mut Vec<SyncOp> parameter at the end of the outer iteration", where(rb))
    else:
        R.ok("S4", "rebased list written back", where(rb))


def _loop_item(p):
    """the value bound by this iteration: payload of the `Some` outcome of an iterator next()"""
    for (a, o, _bb) in p.atoms:
        if a[0] == "variant" and o == "Some" and a[1][0] == "C" and a[1][2].endswith("Iterator::next"):
            return a[1]
    return None


def _mentions(v, item):
    if item is None:
        return False
    if v == item:
        return True
    if isinstance(v, tuple):
        return any(_mentions(x, item) for x in v if isinstance(x, tuple))
    return False


def _mentions_call(v, cid):
    if isinstance(v, tuple):
        if len(v) >= 2 and v[0] == "C" and v[1] == cid:
            return True
        return any(_mentions_call(x, cid) for x in v if isinstance(x, tuple))
    return False


def _cond_on_call(p, cid):
    out = {}
    for (a, o, _bb) in p.atoms:
        if a[0] == "variant" and _mentions_call(a[1], cid) and _proj_field(a[1]) == 1:
            out[o] = True
    return out


def _proj_field(v):
    # ('F', base, variant, field)
    if v[0] == "F":
        return v[3]
    return None


def _resolve_agg(fl, d):
    """the aggregate rvalue a whole-local definition amounts to (following moves of temps)"""
    if d[0] != "assign":
        return None
    r = d[4]
    for _ in range(10):
        if r["k"] == "agg":
            return r
        if r["k"] in ("use", "cast"):
            p = op_place(r["o"])
            if p is None or p["p"]:
                return None
            ds = [x for x in fl.defs.get(p["l"], ()) if x[0] in ("assign", "call") and not x[3]]
            if len(ds) != 1 or ds[0][0] != "assign":
                return None
            r = ds[0][4]
            continue
        return None
    return None


def rule_S11(F, R):
    R.begin("S11", "error discipline of sync: when a step that writes the replica's storage (apply_snapshot, apply_version, set_base_version, add_operation, sync_complete, commit) reports an error, sync returns that failure; it never carries on, because the enclosing transaction would then commit a partly applied step (a fragment of a snapshot with the base version unset) and report success")
    import roles
    b = sync_fn(F)
    if b is None:
        R.missing("S11", "the sync function")
        return
    writers = roles.writer_methods(F)

    def writes_storage(name):
        short = name.split("::")[-1]
        if name.startswith(TXN + "::"):
            return short in writers
        if name in F.bodies and name.startswith("taskdb::"):
            return roles.cone_reaches(F, name, lambda t: any(x.startswith(TXN + "::") and x.split("::")[-1] in writers for x in call_names(t)))
        return False
    c = cfg_of(b)
    paths = SymExec(b, c, max_paths=20000).run()
    seen = set()
    bad = {}
    for p in paths:
        for (a, o, _bb) in p.atoms:
            if a[0] != "variant" or o not in ("Err", "Break"):
                continue
            v = a[1]
            if v[0] != "C" or not writes_storage(v[2]):
                continue
            step = v[2].split("::")[-1]
            seen.add(step)
            failed = p.end[0] == "return" and p.ret and ((p.ret[0] == "A" and p.ret[2] == "Err") or _has_err_residual(p.ret))
            if not failed:
                bad.setdefault(step, p)
    for step in sorted(seen):
        if step in bad:
            R.violation("S11", b["owner_fn"], "storage-error-swallowed:" + step, "an error of %s does not end the sync with that failure (the path goes on to %s): what the step wrote before failing is committed with the rest of the sync" % (step, bad[step].end[0]), where(b, bad[step].blocks[-1]))
        else:
            R.ok("S11", "an error of %s fails the sync" % step, where(b))
    R.floor("S11", "storage-writing steps of sync whose failure path was examined", len(seen), 5)


def _has_err_residual(v, depth=0):
    if depth > 6 or not isinstance(v, tuple):
        return False
    if v and v[0] == "F" and len(v) > 2 and v[2] in ("Err", "Break"):
        return True
    if v and v[0] == "C" and v[2].endswith("from_residual"):
        return True
    return any(_has_err_residual(x, depth + 1) for x in v if isinstance(x, tuple))
