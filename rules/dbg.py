"""debug helper: F = load() gives facts for the current /repo tree"""
import sys, os
sys.path.insert(0, os.path.dirname(os.path.abspath(__file__)))
from tc import extract
from tc.facts import *
from tc.util import *
from tc.sym import *
def load(repo="/repo"):
    p, h, info = extract.ensure_facts(repo)
    from tc.util import reset_caches
    reset_caches()
    return Facts(p)
