"""Role-based anchors: rules find private functions by what they *do* (the seams they touch,
their signatures, the literals they carry), so that renaming or moving a private helper does
not disturb a rule.  Every resolver returns a body path (or a set) or None; rules fail closed
on None."""
import re

from tc.facts import call_names
from tc.util import cfg_of, const_strs, flow_of

TXN = "storage::StorageTxn"
WTXN = "storage::send_wrapper::traits::WrappedStorageTxn"
SERVER = "server::types::Server"
WRITE_SQL = re.compile(r"^\s*(INSERT|UPDATE|DELETE|REPLACE)\b", re.I)

_cache = {}
from tc.util import register_cache as _reg
_reg(_cache)


def _memo(F, key, fn):
    k = (id(F), key)
    if k not in _cache:
        _cache[k] = fn()
    return _cache[k]


def norm(n):
    return re.sub(r"::<[^>]*>", "", n or "")


def callee_body(F, t):
    for n in (t.get("callee"), t.get("resolved")):
        if n and n in F.bodies:
            return F.real_body(n)
    return None


def body_literals(F, b, depth=1):
    """string literals used in body b (and, optionally, in closures it builds)"""
    out = set()
    todo = [b]
    if depth:
        todo += [F.bodies[c] for c in F.closures_in.get(b["path"], ()) if c in F.bodies]
    for bb in todo:
        for bl in bb["blocks"]:
            if bl["cleanup"]:
                continue
            for st in bl["s"]:
                if st["k"] == "assign":
                    r = st["r"]
                    for key in ("o", "a", "b"):
                        o = r.get(key)
                        if isinstance(o, dict) and "k" in o:
                            out.add(o["k"].get("repr", ""))
                    for o in r.get("ops", []):
                        if "k" in o:
                            out.add(o["k"].get("repr", ""))
            t = bl["t"]
            if t and t["k"] == "call":
                for a in t["args"]:
                    if "k" in a:
                        out.add(a["k"].get("repr", ""))
    return {s.strip('"') if s.startswith('"') else s for s in out}


def sqlite_txn_impl(F):
    for im in F.impls_of_trait.get(WTXN, []):
        if "sqlite" in im["self"]:
            return im
    return None


def sql_in_body(F, b):
    out = []
    c = cfg_of(b)
    fl = None
    for i, t in c.calls():
        for a in t["args"]:
            if "k" in a:
                sv = a["k"].get("repr", "")
                if sv.startswith('"'):
                    out.append((i, sv.strip('"')))
            elif "c" in a or "m" in a:
                fl = fl or flow_of(b)
                for sv in const_strs(fl.slice_operand(a, through_all_calls=False), F):
                    if sv and re.search(r"\b(SELECT|INSERT|UPDATE|DELETE|REPLACE|PRAGMA|CREATE|ALTER|DROP)\b", sv):
                        out.append((i, sv))
    return out


def writer_methods(F):
    """names of the StorageTxn methods that modify storage: those of the SQLite transaction
    whose bodies execute a modifying SQL statement, plus commit"""
    def f():
        out = set()
        im = sqlite_txn_impl(F)
        if not im:
            return out
        for it in im["items"]:
            if not it.get("fn"):
                continue
            b = F.real_body(it["path"])
            if b is None:
                continue
            if it["name"] == "commit" or any(WRITE_SQL.search(sv) for _i, sv in sql_in_body(F, b)):
                out.add(it["name"])
        return out
    return _memo(F, "writer_methods", f)


def access_check_fn(F):
    """the function of the SQLite transaction that refuses writes on a read-only store: the
    crate fn whose body constructs the ReadOnlyStorage error"""
    def f():
        for p, b in F.bodies.items():
            if "sqlite" not in p:
                continue
            for bl in b["blocks"]:
                for st in bl["s"]:
                    if st["k"] == "assign" and st["r"]["k"] == "agg" and st["r"].get("variant") == "ReadOnlyStorage":
                        return b["path"]
        return None
    return _memo(F, "access_check_fn", f)


def fn_by_sig(F, sig_in_rx, sig_out_rx, where_rx=None):
    out = []
    for p, b in F.bodies.items():
        if b["kind"] not in ("Fn", "AssocFn"):
            continue
        if where_rx and not re.search(where_rx, p):
            continue
        si = ", ".join(b.get("sig_in") or [])
        so = b.get("sig_out") or ""
        if re.search(sig_in_rx, si) and re.search(sig_out_rx, so):
            out.append(p)
    return out


def fns_calling(F, callee_rx, where_rx=None):
    rx = re.compile(callee_rx)
    out = set()
    for p in F.bodies:
        if where_rx and not re.search(where_rx, p):
            continue
        for (_i, t) in F.calls_in.get(p, ()):
            if any(rx.search(n) for n in call_names(t)):
                out.add(F.owner(p))
    return out


def apply_snapshot_fn(F):
    """taskdb function that writes decoded tasks (set_task) and then sets the base version"""
    def f():
        c = fns_calling(F, re.escape(TXN) + "::set_task$", r"^taskdb::") & fns_calling(F, re.escape(TXN) + "::set_base_version$", r"^taskdb::") & fns_calling(F, re.escape(TXN) + "::is_empty$", r"^taskdb::")
        c = {x for x in c if not fns_calling(F, re.escape(SERVER) + "::add_version$") & {x}}
        return sorted(c)[0] if len(c) == 1 else None
    return _memo(F, "apply_snapshot_fn", f)


def make_snapshot_fn(F):
    """taskdb function (txn) -> bytes that reads all_tasks and is called by the sync function"""
    def f():
        c = {x for x in fns_calling(F, re.escape(TXN) + "::all_tasks$", r"^taskdb::") if re.search(r"Vec<u8>", (F.bodies.get(x, {}).get("sig_out") or ""))}
        return sorted(c)[0] if len(c) == 1 else None
    return _memo(F, "make_snapshot_fn", f)


def snapshot_codec(F):
    """(encode fn, decode fn): the functions using ZlibEncoder / ZlibDecoder"""
    def f():
        enc = sorted(fns_calling(F, r"ZlibEncoder.*::new$", r"^taskdb::"))
        dec = sorted(fns_calling(F, r"ZlibDecoder.*::new$", r"^taskdb::"))
        return (enc[0] if enc else None, dec[0] if dec else None)
    return _memo(F, "snapshot_codec", f)


def apply_operations_fn(F):
    """the taskdb function applying a batch: (&mut dyn StorageTxn, &Operations) calling create_task in a loop"""
    def f():
        c = set()
        for x in fns_calling(F, re.escape(TXN) + "::create_task$", r"^taskdb::"):
            b = F.bodies.get(x)
            si = ", ".join((b or {}).get("sig_in") or [])
            if "Vec<operation::Operation>" in si or "operation::Operations" in si:
                c.add(x)
        return sorted(c)[0] if len(c) == 1 else None
    return _memo(F, "apply_operations_fn", f)


def uuid_header_fn(F):
    def f():
        c = fn_by_sig(F, r"reqwest::.*Response.*&str", r"Result<uuid::Uuid", r"^server::sync")
        return c[0] if len(c) == 1 else None
    return _memo(F, "uuid_header_fn", f)


def snapshot_urgency_header_fn(F):
    def f():
        c = fn_by_sig(F, r"reqwest::.*Response", r"SnapshotUrgency$", r"^server::sync")
        return c[0] if len(c) == 1 else None
    return _memo(F, "snapshot_urgency_header_fn", f)


def kdf_fn(F):
    def f():
        c = sorted(fns_calling(F, r"ring::pbkdf2::derive$"))
        return c[0] if len(c) == 1 else None
    return _memo(F, "kdf_fn", f)


def aad_fn(F):
    def f():
        c = [p for p, b in F.bodies.items() if (b.get("sig_out") or "").startswith("ring::aead::Aad<") and p.startswith("server::encryption")]
        return c[0] if len(c) == 1 else None
    return _memo(F, "aad_fn", f)


def envelope_fns(F):
    """(from_bytes, to_bytes) of the envelope type: by signature"""
    def f():
        fb = [p for p, b in F.bodies.items() if p.startswith("server::encryption") and len(b.get("sig_in") or []) == 1 and re.sub(r"'\w+ ", "", (b.get("sig_in") or [""])[0]) == "&[u8]" and "Envelope" in (b.get("sig_out") or "")]
        tb = [p for p, b in F.bodies.items() if p.startswith("server::encryption") and any("Envelope" in x for x in (b.get("sig_in") or [])) and (b.get("sig_out") or "") == "std::vec::Vec<u8>"]
        return (fb[0] if len(fb) == 1 else None, tb[0] if len(tb) == 1 else None)
    return _memo(F, "envelope_fns", f)


def task_fn(F, what):
    def f():
        if what == "is_known_key":
            c = [p for p, b in F.bodies.items() if p.startswith("task::task::Task::") and (b.get("sig_in") or []) == ["&str"] and b.get("sig_out") == "bool"]
        elif what == "has_synthetic_tag":
            c = [p for p, b in F.bodies.items() if p.startswith("task::task::Task::") and any("SyntheticTag" in x for x in (b.get("sig_in") or [])) and b.get("sig_out") == "bool"]
        else:
            c = []
        return c[0] if len(c) == 1 else None
    return _memo(F, "task_fn:" + what, f)


def cloud_children_fn(F):
    """object-store helper listing the candidate children of a version: calls Service::list, returns Vec<Uuid>"""
    def f():
        c = [x for x in fns_calling(F, r"server::cloud::service::Service::list$", r"cloud::server") if "Vec<uuid::Uuid>" in (F.bodies.get(x, {}).get("sig_out") or "")]
        return c[0] if len(c) == 1 else None
    return _memo(F, "cloud_children_fn", f)


def git_cmd_fns(F, word):
    """functions of the git backend that issue `git <word> ..` (literal in an argument array)"""
    def f():
        out = set()
        for p, b in F.bodies.items():
            if "gitsync" not in p:
                continue
            if word in body_literals(F, b, depth=0):
                out.add(F.owner(p))
        return out
    return _memo(F, "git_cmd:" + word, f)


def cone_reaches(F, start, pred):
    seen = F.reachable_from([start])
    for q in seen:
        for (_i, t) in F.calls_in.get(q, ()):
            if pred(t):
                return True
    return False
