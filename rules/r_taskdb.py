"""TaskDb-level tables: U1-U3 (C07 undo), R1-R4 (C15 working set), L1 + A1 (C05 commit)."""
import re

from tc.facts import call_names, loc
from tc.flow import op_place, pproj
from tc.sym import SymExec, show, show_atom, show_path
from tc.util import agg_sites, bool_origin, calls_matching, cfg_of, const_strs, flow_of, guards_of, is_plumbing, local_def, ref_base, where

TXN = "storage::StorageTxn"


def _has(v, pred, depth=0):
    if depth > 30:
        return False
    try:
        if pred(v):
            return True
    except (IndexError, TypeError):
        pass
    if isinstance(v, tuple):
        return any(_has(x, pred, depth + 1) for x in v if isinstance(x, tuple))
    return False


def _is_proj(v, root, variant, field):
    """v == root.variant.field"""
    return v == ("F", ("P", root), variant, field)


# ---------------------------------------------------------------------------------------
# U1: reversal table

def find_reverse_ops(F):
    out = []
    for p, b in F.bodies.items():
        if b.get("sig_in") == ["operation::Operation"] and b.get("sig_out") == "std::vec::Vec<server::op::SyncOp>":
            out.append(b)
    return out


def rule_U1(F, R):
    R.begin("U1", "reversal table: Create->[Delete]; Delete{old_task}->[Create, one Update(k, Some(v)) per (k,v) of old_task]; Update->[Update(value = old_value)]; UndoPoint->[] (docs/storage.md, Undo)")
    fns = find_reverse_ops(F)
    if len(fns) != 1:
        R.missing("U1", "the function Operation -> Vec<SyncOp>", "found %d" % len(fns))
        return
    b = fns[0]
    c = cfg_of(b)
    try:
        paths = SymExec(b, c).run()
    except Exception as e:
        R.violation("U1", b["path"], "table-extraction", "cannot extract the reversal table: %s" % e, where(b))
        return
    pname = b["locals"][1].get("name") or "_1"
    seen = set()
    for p in paths:
        kind = None
        for (a, o, _bb) in p.atoms:
            if a == ("variant", ("P", pname)):
                kind = o
        if kind is None:
            continue
        pushes = [e for e in p.events if any(n.endswith("Vec::<T, A>::push") for n in e["names"])]
        desc = show_path(p, interesting=lambda e: any(n.endswith("::push") for n in e["names"]))
        w = where(b, p.blocks[-1])
        # the returned list, whether written as vec![..] or as Vec::new() followed by pushes
        items = None
        base = p.ret
        while base and base[0] == "M":
            base = base[2]
        if p.end[0] == "return" and base:
            if base[0] == "T":
                items = list(base[1]) + [e["args"][-1] for e in pushes]
            elif base[0] == "C" and re.search(r"Vec::<T>::(new|with_capacity)$", base[2]):
                items = [e["args"][-1] for e in pushes]
        if kind == "Create" and p.end[0] == "return":
            seen.add(kind)
            ok = items == [("A", "server::op::SyncOp", "Delete", (("uuid", ("F", ("P", pname), "Create", "uuid")),))]
            _rep(R, ok, "U1", b, "Create", "Create{u} must reverse to exactly [Delete{u}]", desc, w)
        elif kind == "UndoPoint" and p.end[0] == "return":
            seen.add(kind)
            ok = items == []
            _rep(R, ok, "U1", b, "UndoPoint", "UndoPoint must reverse to []", desc, w)
        elif kind == "Update" and p.end[0] == "return":
            seen.add(kind)
            want = ("T", (("A", "server::op::SyncOp", "Update", (
                ("uuid", ("F", ("P", pname), "Update", "uuid")),
                ("property", ("F", ("P", pname), "Update", "property")),
                ("value", ("F", ("P", pname), "Update", "old_value")),
                ("timestamp", ("F", ("P", pname), "Update", "timestamp")))),))
            ok = items is not None and len(items) == 1 and items[0][0] == "A" and items[0][2] == "Update"
            if ok:
                f = dict(items[0][3])
                ok = f.get("uuid") == ("F", ("P", pname), "Update", "uuid") and f.get("property") == ("F", ("P", pname), "Update", "property") \
                    and f.get("value") == ("F", ("P", pname), "Update", "old_value")
            _rep(R, ok, "U1", b, "Update", "Update must reverse to [Update{same uuid, same property, value = old_value}]", desc, w)
        elif kind == "Delete":
            if p.end[0] == "return":
                seen.add("Delete/base")
                ok = p.ret[0] == "T" and len(p.ret[1]) >= 1 and p.ret[1][0] == ("A", "server::op::SyncOp", "Create", (("uuid", ("F", ("P", pname), "Delete", "uuid")),))
                _rep(R, ok, "U1", b, "Delete/base", "Delete must reverse to a list starting with Create{same uuid}", desc, w)
            elif p.end[0] == "backedge":
                seen.add("Delete/iter")
                ok = len(pushes) == 1
                if ok:
                    v = pushes[0]["args"][-1]
                    ok = v[0] == "A" and v[2] == "Update"
                    if ok:
                        f = dict(v[3])
                        item = None
                        for (a, o, _bb) in p.atoms:
                            if a[0] == "variant" and o == "Some" and a[1][0] == "C" and a[1][2].endswith("Iterator::next"):
                                item = a[1]
                        old_task = ("F", ("P", pname), "Delete", "old_task")
                        ok = (f.get("uuid") == ("F", ("P", pname), "Delete", "uuid") and item is not None
                              and _has(item, lambda x: x == old_task)
                              and f.get("property") == ("F", ("F", item, "Some", 0), None, 0)
                              and f.get("value") == ("A", "std::option::Option", "Some", ((0, ("F", ("F", item, "Some", 0), None, 1)),)))
                _rep(R, ok, "U1", b, "Delete/iter", "each (k, v) of old_task must be restored by Update{same uuid, property k, value Some(v)}", desc, w)
    for need in ("Create", "UndoPoint", "Update", "Delete/base", "Delete/iter"):
        if need not in seen:
            R.violation("U1", b["path"], "row-missing:%s" % need, "the reversal table has no row for %s" % need, where(b))
    R.extra["exhaustive"] = True


def _rep(R, ok, rule, b, key, msg, desc, w):
    if ok:
        R.ok(rule, "%s: %s" % (key, desc[:200]), w)
    else:
        R.violation(rule, b["path"], key, "%s; extracted row: %s" % (msg, desc[:400]), w)


# ---------------------------------------------------------------------------------------
# U2: commit_reversed_operations

def find_undo_commit(F):
    """role: the taskdb fn (taking &mut dyn StorageTxn) that calls StorageTxn::remove_operation"""
    for (bp, bb) in F.callsites.get(TXN + "::remove_operation", []):
        b = F.bodies[bp]
        if bp.startswith("taskdb::") and not b["blocks"][bb]["cleanup"]:
            return b
    return None


def _all(v):
    """every sub-term of a symbolic value"""
    out = []
    if isinstance(v, tuple):
        out.append(v)
        for x in v:
            if isinstance(x, tuple):
                out += _all(x)
    return out


def rule_U2(F, R):
    R.begin("U2", "commit_reversed_operations: early returns (empty input, tail mismatch) write nothing; the mismatch test compares the supplied operations with the suffix of the same length of unsynced_operations(); the loop runs over the supplied operations reversed, applies every reversed operation and removes the undone operation each iteration")
    b = find_undo_commit(F)
    revs = find_reverse_ops(F)
    if b is None or len(revs) != 1:
        R.missing("U2", "the taskdb function that calls StorageTxn::remove_operation / the reversal function")
        return
    c = cfg_of(b)
    fl = flow_of(b)
    subj = b["owner_fn"]
    rev = revs[0]["path"]
    try:
        paths = SymExec(b, c).run()
    except Exception as e:
        R.violation("U2", subj, "table-extraction", "cannot extract the path table: %s" % e, where(b))
        return
    import r_sync as _rs0
    writers = re.compile(r"^storage::StorageTxn::(add_operation|remove_operation|set_task|create_task|delete_task|set_base_version|sync_complete|add_to_working_set|set_working_set_item|clear_working_set|commit)$|^" + re.escape(_rs0.apply_op_fn(F) or "taskdb::apply::apply_op") + "$")
    n_early = 0
    undo_param = ("P", "undo_ops")
    for p in paths:
        if p.end[0] != "return":
            continue
        ws = [e for e in p.events if any(writers.search(n) for n in e["names"])]
        is_false = p.ret == ("A", "std::result::Result", "Ok", ((0, ("K", "false")),)) or (p.ret[0] == "A" and p.ret[2] == "Ok" and _has(p.ret, lambda x: x == ("K", "false")))
        looped = any(e for e in p.events if rev in e["names"] or any(n.endswith("remove_operation") for n in e["names"]))
        commits = [e for e in ws if any(n.endswith("::commit") for n in e["names"])]
        if not commits and p.ret[0] == "A" and p.ret[2] == "Ok":
            n_early += 1
            if ws:
                R.violation("U2", subj, "early-return-writes", "a path that returns without committing has already written: %s" % show_path(p, interesting=lambda e: any(writers.search(n) for n in e["names"]))[:400], where(b, p.blocks[-1]))
            else:
                R.ok("U2", "early return without writes: %s" % " ∧ ".join("%s=%s" % (show_atom(a), o) for a, o, _ in p.atoms)[:200], where(b, p.blocks[-1]))
    R.floor("U2", "early-return paths (empty input, tail mismatch)", n_early, 2)
    # (ii) the mismatch test: an eq between a suffix slice of unsynced ops of length len(undo) and undo
    uns = calls_matching(c, re.escape(TXN) + "::unsynced_operations$")
    commit = calls_matching(c, re.escape(TXN) + "::commit$")
    rm = calls_matching(c, re.escape(TXN) + "::remove_operation$")
    if not uns or not commit or not rm:
        R.missing("U2", "unsynced_operations / commit / remove_operation call sites")
        return
    found_eq = False
    for p in paths:
        for (a, o, _bb) in p.atoms:
            if a[0] == "call" and a[1].endswith("PartialEq::eq") and o is True:
                x, y = a[2]
                # one side: index(unsynced, RangeFrom{start: len(unsynced) - len(undo)})
                for s1, s2 in ((x, y), (y, x)):
                    if s1[0] == "C" and s1[2].endswith("Index::index"):
                        base, rng = s1[3][0], s1[3][1]
                        is_uns = _has(base, lambda v: v[0] == "C" and v[2].endswith("unsynced_operations"))
                        is_from = rng[0] == "A" and rng[1].endswith("RangeFrom")
                        if is_uns and is_from:
                            start = dict(rng[3]).get("start")
                            _len_uns = lambda w: w[0] == "C" and w[2].endswith("::len") and _has(w, lambda z: z[0] == "C" and z[2].endswith("unsynced_operations"))
                            _len_undo = lambda w: w[0] == "C" and w[2].endswith("::len") and _has(w, lambda z: z == undo_param)
                            good = _has(start, lambda v: (v[0] == "B" and v[1] in ("SubWithOverflow", "Sub") and _has(v[2], _len_uns) and _has(v[3], _len_undo))
                                        or (v[0] == "C" and isinstance(v[2], str) and v[2].endswith("::checked_sub") and len(v[3]) == 2 and _has(v[3][0], _len_uns) and _has(v[3][1], _len_undo)))
                            other_is_undo = _has(s2, lambda z: z == undo_param)
                            if good and other_is_undo:
                                found_eq = True
    def _helper_tail_match(a, o):
        """the test is delegated to a crate-local predicate fn(undo, unsynced) -> bool whose own table says
        `unsynced[len(unsynced) - len(undo)..] == undo` (subtraction plain or checked)"""
        if a[0] == "call#":
            a = ("call", a[2], a[3])
        if not (a[0] == "call" and o is True and isinstance(a[1], str)):
            return False
        hb = F.bodies.get(a[1]) or F.bodies.get(re.sub(r"::<[^>]*>", "", a[1]))
        if hb is None or hb["kind"] not in ("Fn", "AssocFn") or not hb.get("blocks"):
            return False
        try:
            hpaths = [q for q in SymExec(hb, cfg_of(hb), max_paths=500).run() if q.end[0] == "return"]
        except Exception:
            return False
        pnames = [hb["locals"][i + 1].get("name") for i in range(hb["argc"])]
        pair = None
        for q in hpaths:
            cands = [(aa, True) for (aa, oo, _b2) in q.atoms if aa[0] == "call" and aa[1].endswith("PartialEq::eq") and oo is True]
            if q.ret and q.ret[0] == "C" and isinstance(q.ret[2], str) and q.ret[2].endswith("PartialEq::eq"):
                cands.append((("call", q.ret[2], q.ret[3]), True))
            for (aa, _t) in cands:
                x, y = aa[2][0], aa[2][1]
                for s1, s2 in ((x, y), (y, x)):
                    idx = [v for v in _all(s1) if v[0] == "C" and isinstance(v[2], str) and v[2].endswith("Index::index")]
                    for iv in idx:
                        base, rng = iv[3][0], iv[3][1]
                        if not (rng[0] == "A" and rng[1].endswith("RangeFrom")):
                            continue
                        start = dict(rng[3]).get("start")
                        for A in pnames:
                            for B in pnames:
                                if A == B or not A or not B:
                                    continue
                                lenA = lambda w: w[0] == "C" and w[2].endswith("::len") and _has(w, lambda z: z == ("P", A))
                                lenB = lambda w: w[0] == "C" and w[2].endswith("::len") and _has(w, lambda z: z == ("P", B))
                                sub_ok = _has(start, lambda v: (v[0] == "B" and v[1] in ("SubWithOverflow", "Sub") and _has(v[2], lenA) and _has(v[3], lenB))
                                              or (v[0] == "C" and v[2].endswith("::checked_sub") and len(v[3]) == 2 and _has(v[3][0], lenA) and _has(v[3][1], lenB)))
                                if sub_ok and _has(base, lambda z: z == ("P", A)) and _has(s2, lambda z: z == ("P", B)):
                                    pair = (A, B)
        if pair is None:
            return False
        # no path may answer `true` without that comparison
        for q in hpaths:
            r_ = q.ret
            if r_ and r_[0] == "K" and str(r_[1]).replace("const ", "") == "true":
                if not any(aa[0] == "call" and aa[1].endswith("PartialEq::eq") and oo is True for (aa, oo, _b2) in q.atoms):
                    return False
        ia, ib = pnames.index(pair[0]), pnames.index(pair[1])
        args = a[2]
        return _has(args[ia], lambda v: v[0] == "C" and v[2].endswith("unsynced_operations")) and _has(args[ib], lambda z: z == undo_param)

    for p in paths:
        for (a, o, _bb) in p.atoms:
            if _helper_tail_match(a, o):
                found_eq = True

    def _is_ends_with(a, o):
        return (a[0] == "call" and a[1].endswith("::ends_with") and o is True
                and _has(a[2][0], lambda v: v[0] == "C" and v[2].endswith("unsynced_operations"))
                and _has(a[2][1], lambda z: z == undo_param))
    for p in paths:
        for (a, o, _bb) in p.atoms:
            if _is_ends_with(a, o):
                found_eq = True
    if not found_eq:
        R.violation("U2", subj, "tail-match-test", "no path to the reversal loop is guarded by `unsynced[len(unsynced) - len(undo)..] == undo`: the supplied operations are not checked to be the most recent unsynchronised ones", where(b))
    else:
        R.ok("U2", "tail-match test: unsynced[len-len(undo)..] == undo guards the reversal", where(b))
    # every path that removes an operation or commits carries the successful tail-match
    for p in paths:
        evw = [e for e in p.events if any(n.endswith("::remove_operation") or n.endswith("StorageTxn::commit") for n in e["names"]) or _rs0.apply_op_fn(F) in e["names"]]
        if not evw:
            continue
        okp = any(a[0] == "call" and a[1].endswith("PartialEq::eq") and o is True and _has(a[2], lambda v: v[0] == "C" and v[2].endswith("Index::index")) for (a, o, _bb) in p.atoms) \
            or any(a[0] == "call" and a[1].endswith("::ends_with") and o is True for (a, o, _bb) in p.atoms) \
            or any(_helper_tail_match(a, o) for (a, o, _bb) in p.atoms)
        if not okp:
            R.violation("U2", subj, "reversal-without-match", "%s is reachable without the tail-match test having succeeded" % evw[0]["callee"].split("::")[-1], where(b, evw[0]["bb"]))
            break
    else:
        R.ok("U2", "remove_operation / apply_op / commit only after the tail-match succeeded", where(b))
    # (iii) reversed iteration + per-iteration effects
    revcalls = calls_matching(c, r"^(std|core)::slice::<impl \[T\]>::reverse$|^std::iter::Iterator::rev$|DoubleEndedIterator::next_back$")
    loops = c.loops()
    lp = None
    for h, body in loops.items():
        if any(i in body for i, _t in rm):
            if lp is None or len(body) > len(lp[1]):
                lp = (h, body)
    if lp is None:
        R.violation("U2", subj, "remove_operation-not-in-loop", "remove_operation is not called once per undone operation", where(b))
        return
    okrev = False
    for (i, t) in revcalls:
        if c.dominates(i, lp[0]) and i not in lp[1]:
            s = fl.slice_operand(t["args"][0])
            if "undo_ops" in s.upvars() or any((fl.local_name(l) or "") == "undo_ops" for l in s.locals):
                okrev = True
    if not okrev:
        R.violation("U2", subj, "not-reversed", "the supplied operations are not reversed before the undo loop (operations must be undone last-to-first)", where(b, lp[0]))
    else:
        R.ok("U2", "operations reversed before the loop", where(b, lp[0]))
    # per-iteration: every path through one outer iteration passes remove_operation(item); inner loop applies each reversed op
    try:
        it_paths = SymExec(b, c, region=lp[1], entry=lp[0]).run()
    except Exception as e:
        R.violation("U2", subj, "loop-table-extraction", str(e), where(b))
        return
    n = 0
    for p in it_paths:
        if p.end[0] != "backedge":
            continue
        item = None
        for (a, o, _bb) in p.atoms:
            if a[0] == "variant" and o == "Some" and a[1][0] == "C" and a[1][2].endswith("Iterator::next") and item is None:
                item = a[1]
        revev = [e for e in p.events if rev in e["names"]]
        rmev = [e for e in p.events if any(n_.endswith("remove_operation") for n_ in e["names"])]
        import r_sync as _rs
        apev = [e for e in p.events if _rs.apply_op_fn(F) in e["names"]]
        inner_some = [1 for (a, o, _bb) in p.atoms if a[0] == "variant" and o == "Some" and a[1][0] == "C" and a[1][2].endswith("Iterator::next") and a[1] != item]
        if end_is_outer(p, lp[0]):
            n += 1
            desc = show_path(p, interesting=lambda e: rev in e["names"] or _rs.apply_op_fn(F) in e["names"] or any(x.endswith("remove_operation") for x in e["names"]))
            if not revev or not _has(revev[0]["args"][0], lambda v: v == ("F", item, "Some", 0)):
                R.violation("U2", subj, "iteration-without-reversal", "an iteration does not compute the reversal of its operation: %s" % desc[:300], where(b, p.blocks[-1]))
            elif not rmev or not _has(rmev[0]["args"][-1], lambda v: v == ("F", item, "Some", 0)):
                R.violation("U2", subj, "iteration-without-remove_operation", "an iteration does not remove the undone operation from the unsynchronised list: %s" % desc[:300], where(b, p.blocks[-1]))
            else:
                R.ok("U2", "iteration: reverse_ops(op) .. remove_operation(op)", where(b, p.blocks[-1]))
        else:
            # inner iteration
            desc = show_path(p, interesting=lambda e: _rs.apply_op_fn(F) in e["names"])
            if not apev:
                R.violation("U2", subj, "reversed-op-not-applied", "a reversed operation is not applied: %s" % desc[:300], where(b, p.blocks[-1]))
            else:
                R.ok("U2", "inner iteration: apply_op(reversed op)", where(b, p.blocks[-1]))
    R.floor("U2", "outer-iteration paths of the undo loop", n, 1)


def end_is_outer(p, header):
    return p.end[1] == header


def rule_U3(F, R):
    R.begin("U3", "only unsynchronised operations are offered for undo and both storages refuse to remove a synchronised operation")
    # get_undo_operations reads through unsynced_operations only
    cands = [b for p, b in F.bodies.items() if p.startswith("taskdb::undo::get_undo_operations") and b.get("coroutine")]
    if not cands:
        R.missing("U3", "taskdb::undo::get_undo_operations")
        return
    b = cands[0]
    c = cfg_of(b)
    reads = [t for i, t in c.calls() if any(n.startswith(TXN + "::") for n in call_names(t))]
    bad = [t for t in reads if not any(n.endswith("::unsynced_operations") for n in call_names(t))]
    if bad or not reads:
        R.violation("U3", b["owner_fn"], "undo-reads-other-operations", "get_undo_operations reads storage through %s" % (call_names(bad[0])[0] if bad else "nothing"), where(b))
    else:
        R.ok("U3", "get_undo_operations reads only unsynced_operations()", where(b))
    # in-memory remove_operation: refuses when the last operation is synced
    for im in F.impls:
        tr = im.get("trait") or ""
        if not (tr.endswith("StorageTxn") or tr.endswith("WrappedStorageTxn")):
            continue
        for it in im["items"]:
            if it["name"] != "remove_operation":
                continue
            rb = F.real_body(it["path"])
            if rb is None:
                continue
            if "inmemory" in im["self"]:
                cc = cfg_of(rb)
                # a field named `synced` is read and leads to an Err
                reads_synced = any(any(isinstance(e, dict) and e.get("n") == "synced" for e in (st["r"].get("p", {}).get("p", []) if st["k"] == "assign" and st["r"]["k"] in ("ref", "copyforderef") else (op_place(st["r"]["o"]) or {"p": []})["p"] if st["k"] == "assign" and st["r"]["k"] == "use" else []))
                                   for i in cc.reach for st in cc.blocks[i]["s"])
                if not reads_synced:
                    # also switch operands directly on the field
                    reads_synced = "synced" in repr([cc.blocks[i] for i in cc.reach])
                if reads_synced:
                    R.ok("U3", "in-memory remove_operation consults the `synced` flag", where(rb))
                else:
                    R.violation("U3", it["path"], "inmemory-remove-synced", "the in-memory remove_operation no longer looks at the `synced` flag", where(rb))
            elif "sqlite" in im["self"]:
                cc = cfg_of(rb)
                ff = flow_of(rb)
                sqls = []
                for i, t in cc.calls():
                    for a in t["args"]:
                        for sv in const_strs(ff.slice_operand(a, through_all_calls=False), F):
                            if sv and ("SELECT" in sv or "DELETE" in sv):
                                sqls.append(sv)
                sel = [s for s in sqls if "SELECT" in s]
                if sel and all(re.search(r"WHERE\s+NOT\s+synced|synced\s*=\s*(0|false)", s, re.I) for s in sel):
                    R.ok("U3", "SQLite remove_operation selects only `NOT synced` rows", where(rb))
                else:
                    R.violation("U3", it["path"], "sqlite-remove-synced", "the SQLite remove_operation does not restrict itself to unsynchronised rows: %s" % sel, where(rb))


# ---------------------------------------------------------------------------------------
# R1-R4: working set

def find_rebuild(F, role="scan"):
    """the working-set rebuild in taskdb::working_set, by what each part does (the rebuild may be one function or be
    split into phases): role `scan` = the body that reads all_tasks and walks the old working set, `write` = the body
    that calls set_working_set_item, `entry` = the body that commits (what TaskDb::rebuild_working_set calls)"""
    cands = []
    for p, b in F.bodies.items():
        if p.startswith("taskdb::working_set::") and b.get("coroutine"):
            cands.append(b)
    def has(b, m):
        return bool(calls_matching(cfg_of(b), re.escape(TXN) + "::" + m + "$"))
    whole = [b for b in cands if has(b, "get_working_set") and has(b, "all_tasks")]
    if whole:
        return whole[0]
    want = {"scan": "all_tasks", "write": "set_working_set_item", "entry": "commit"}[role]
    sel = [b for b in cands if has(b, want)]
    if role == "entry" and not sel:
        sel = [b for b in cands if has(b, "get_working_set")]
    return sel[0] if len(sel) == 1 else None


def rule_R1(F, R):
    R.begin("R1", "keep/blank/drop table of the rebuild scan (one iteration): blank or vanished or no-longer-wanted entries push a blank when not renumbering and nothing when renumbering; wanted entries push their uuid and are marked seen")
    b = find_rebuild(F)
    if b is None:
        R.missing("R1", "the taskdb::working_set function that reads get_working_set and all_tasks")
        return
    c = cfg_of(b)
    loops = c.loops()
    scan = None
    for h, body in loops.items():
        if any(any(n.endswith("StorageTxn::get_task") for n in call_names(c.term(i))) for i in body if c.term(i) and c.term(i)["k"] == "call"):
            scan = (h, body)
    if not scan:
        R.missing("R1", "the scan loop (the loop calling StorageTxn::get_task)")
        return
    try:
        paths = SymExec(b, c, region=scan[1], entry=scan[0]).run()
    except Exception as e:
        R.violation("R1", b["owner_fn"], "table-extraction", str(e), where(b))
        return
    rows = {}
    subj = b["owner_fn"]
    n = 0
    for p in paths:
        if p.end[0] != "backedge":
            continue
        n += 1
        st = _r1_classify(p)
        if st is None:
            R.violation("R1", subj, "unrecognised-row", "row outside the rule's vocabulary: %s" % show_path(p)[:400], where(b, p.blocks[-1]))
            continue
        (entry, task, wanted, renumber) = st
        pushes = [e for e in p.events if any(nm.endswith("Vec::<T, A>::push") for nm in e["names"])]
        seen_ins = [e for e in p.events if any(nm.endswith("HashSet::<T, S, A>::insert") for nm in e["names"])]
        item = _item(p)
        uuid = ("F", ("F", item, "Some", 0), "Some", 0) if item else None
        desc = "entry=%s task=%s wanted=%s renumber=%s => %s" % (entry, task, wanted, renumber, "; ".join("push(%s)" % show(e["args"][-1]) for e in pushes) or "no push")
        keep = entry == "uuid" and task == "exists" and wanted is True
        if keep:
            ok = len(pushes) == 1 and pushes[0]["args"][-1] == ("A", "std::option::Option", "Some", ((0, uuid),)) and len(seen_ins) == 1 and seen_ins[0]["args"][-1] == uuid
            msg = "a task that stays in the working set must be pushed with its uuid (keeping its relative order) and marked seen"
        else:
            rens = [renumber] if renumber is not None else [True, False]
            ok = True
            for rn in rens:
                if rn is False:
                    ok = ok and len(pushes) == 1 and pushes[0]["args"][-1] == ("A", "std::option::Option", "None", ()) and not seen_ins
                else:
                    ok = ok and not pushes and not seen_ins
            if renumber is None:
                ok = False
            msg = "an entry that is blank / whose task vanished / is no longer wanted must push a blank when not renumbering (later tasks keep their number) and nothing when renumbering (no gaps)"
        key = "%s/%s/%s/%s" % (entry, task, wanted, renumber)
        rows[key] = ok
        if ok:
            R.ok("R1", desc, where(b, p.blocks[-1]))
        else:
            R.violation("R1", subj, "row:%s" % key, "%s; extracted: %s" % (msg, desc), where(b, p.blocks[-1]))
    R.floor("R1", "scan-iteration rows", n, 7)
    need = ["blank/-/None/False", "blank/-/None/True", "uuid/missing/None/False", "uuid/missing/None/True", "uuid/exists/False/False", "uuid/exists/False/True", "uuid/exists/True/None"]
    for k in need:
        alt = k.replace("/None", "/True") if k.endswith("True/None") else None
        if k not in rows and not any(r.startswith(k.rsplit("/", 1)[0]) for r in rows):
            R.violation("R1", subj, "row-missing:%s" % k, "the scan has no row for %s" % k, where(b))
    R.extra["exhaustive"] = True


def _item(p):
    for (a, o, _bb) in p.atoms:
        if a[0] == "variant" and o == "Some" and a[1][0] == "C" and a[1][2].endswith("Iterator::next"):
            return a[1]
    return None


def _r1_classify(p):
    item = _item(p)
    if item is None:
        return None
    entry = task = None
    wanted = None
    renumber = None
    elt = ("F", item, "Some", 0)
    for (a, o, _bb) in p.atoms:
        if a[0] == "variant" and a[1] == item:
            continue
        if a[0] == "variant" and a[1] == elt:
            entry = "uuid" if o == "Some" else "blank"
        elif a[0] == "variant" and a[1][0] == "C" and a[1][2].endswith("StorageTxn::get_task"):
            if o != "Ok":
                return None
        elif a[0] == "variant" and a[1][0] == "F" and a[1][1][0] == "C" and a[1][1][2].endswith("StorageTxn::get_task"):
            task = "exists" if o == "Some" else "missing"
        elif a[0] in ("call#", "call") and (a[2] if a[0] == "call#" else a[1]).endswith("Fn::call"):
            wanted = o
        elif a[0] == "val" and _has(a[1], lambda v: v in (("P", "renumber"), ("?", "uninit:renumber"))):
            renumber = o
        else:
            return None
    if entry == "blank":
        task = "-"
    if entry is None:
        return None
    return (entry, task or "-", wanted, renumber)


def rule_R2(F, R):
    R.begin("R2", "position 0 starts blank, the scan skips old position 0, newcomers are all tasks that are not seen and satisfy the predicate, appended after the scan")
    b = find_rebuild(F)
    if b is None:
        R.missing("R2", "the rebuild function")
        return
    c = cfg_of(b)
    fl = flow_of(b)
    subj = b["owner_fn"]
    # new_ws initial value: vec![None]
    try:
        pre = SymExec(b, c, stop_blocks=[h for h in c.loops()]).run()
    except Exception as e:
        R.violation("R2", subj, "prefix-extraction", str(e), where(b))
        return
    init_ok = False
    for p in pre:
        for l, v in p.env.items():
            if (b["locals"][l].get("name") or "") == "new_ws" or "Vec<std::option::Option<uuid::Uuid>>" in b["locals"][l]["ty"]:
                if v == ("T", (("T", (("A", "std::option::Option", "None", ()),)),)) or v == ("T", (("A", "std::option::Option", "None", ()),)):
                    init_ok = True
    if init_ok:
        R.ok("R2", "new working set starts as [None]", where(b))
    else:
        R.violation("R2", subj, "slot0-not-blank", "the rebuilt working set does not start with exactly one blank entry (position 0 must be empty)", where(b))
    # scan starts at index 1: the scan loop's iterator derives from old_ws[1..] or old_ws.iter().skip(1)
    loops_ = c.loops()
    scan = None
    for h_, body_ in loops_.items():
        if any(any(n.endswith("StorageTxn::get_task") for n in call_names(c.term(i))) for i in body_ if c.term(i) and c.term(i)["k"] == "call"):
            scan = (h_, body_)
    ok1 = False
    if scan:
        its = [(i, c.term(i)) for i in sorted(c.reach) if c.term(i) and c.term(i)["k"] == "call" and any(n.endswith("IntoIterator::into_iter") for n in call_names(c.term(i))) and c.dominates(i, scan[0]) and i not in scan[1]]
        if its:
            sl = fl.slice_operand(its[-1][1]["args"][0])
            for bb_, t_ in sl.calls.items():
                nm = call_names(t_)
                if "std::ops::Index::index" in nm and any("RangeFrom" in s_ for s_ in t_.get("substs", [])):
                    d = local_def(fl, op_place(t_["args"][1])["l"]) if op_place(t_["args"][1]) else None
                    if d and d[0] == "rv" and d[1]["k"] == "agg" and d[1]["ops"] and "k" in d[1]["ops"][0] and str(d[1]["ops"][0]["k"].get("val")) == "1":
                        ok1 = True
                if any(n.endswith("Iterator::skip") for n in nm) and len(t_["args"]) > 1 and "k" in t_["args"][1] and str(t_["args"][1]["k"].get("val")) == "1":
                    ok1 = True
    if ok1:
        R.ok("R2", "scan starts at old index 1", where(b))
    else:
        R.violation("R2", subj, "scan-start", "the scan of the old working set does not start at index 1", where(b))
    # newcomers loop: contains(seen, uuid)==false && pred(task)==true -> push(Some(uuid)); iterates all_tasks
    loops = c.loops()
    nl = None
    for h, body in loops.items():
        if any(any(n.endswith("HashSet::<T, S, A>::contains") for n in call_names(c.term(i))) for i in body if c.term(i) and c.term(i)["k"] == "call"):
            nl = (h, body)
    if nl is None:
        R.violation("R2", subj, "no-newcomer-loop", "no loop adds the tasks that were not already in the working set", where(b))
        return
    paths = SymExec(b, c, region=nl[1], entry=nl[0]).run()
    good = bad = 0
    for p in paths:
        if p.end[0] != "backedge":
            continue
        pushes = [e for e in p.events if any(nm.endswith("Vec::<T, A>::push") for nm in e["names"])]
        cont = [o for (a, o, _bb) in p.atoms if a[0] == "call" and a[1].endswith("::contains")]
        pred = [o for (a, o, _bb) in p.atoms if a[0] in ("call#",) and a[2].endswith("Fn::call")]
        should = (cont == [False]) and (pred == [True])
        if should != (len(pushes) == 1) or (pushes and pushes[0]["args"][-1][0:3] != ("A", "std::option::Option", "Some")):
            bad += 1
            R.violation("R2", subj, "newcomer-row", "newcomer loop row wrong: seen=%s wanted=%s pushes=%d" % (cont, pred, len(pushes)), where(b, p.blocks[-1]))
        else:
            good += 1
    if good >= 3 and not bad:
        R.ok("R2", "newcomers: !seen && wanted -> push(Some(uuid)) (%d rows)" % good, where(b, nl[0]))
    elif not bad:
        R.violation("R2", subj, "newcomer-rows", "only %d newcomer rows extracted" % good, where(b, nl[0]))
    # iterates all_tasks; and runs after the scan loop
    at = calls_matching(c, re.escape(TXN) + "::all_tasks$")
    if not at or not any(c.dominates(i, nl[0]) for i, _t in at):
        R.violation("R2", subj, "newcomers-not-from-all-tasks", "newcomers are not taken from all_tasks()", where(b, nl[0]))
    else:
        R.ok("R2", "newcomers iterate all_tasks()", where(b, at[0][0]))


def _bool_rows(cb):
    """[(conds {atom: outcome}, result bool)] of a bool-returning closure/function; a returned
    pure-call value is expanded into its two outcomes.  None if not extractable"""
    c = cfg_of(cb)
    try:
        paths = SymExec(cb, c).run()
    except Exception:
        return None
    rows = []
    for p in paths:
        if p.end[0] != "return":
            continue
        conds = {a: o for (a, o, _bb) in p.atoms}
        r = p.ret
        if r[0] == "K" and str(r[1]).replace("const ", "") in ("true", "false"):
            rows.append((conds, str(r[1]).endswith("true")))
        elif r[0] == "C":
            from tc.sym import PURE
            atom = ("call", r[2], r[3]) if PURE.search(r[2]) else ("call#", r[1], r[2], r[3])
            for val in (True, False):
                d = dict(conds)
                d[atom] = val
                rows.append((d, val))
        elif r[0] == "U" and r[1] == "Not" and r[2][0] == "C":
            rr = r[2]
            from tc.sym import PURE
            atom = ("call", rr[2], rr[3]) if PURE.search(rr[2]) else ("call#", rr[1], rr[2], rr[3])
            for val in (True, False):
                d = dict(conds)
                d[atom] = val
                rows.append((d, not val))
        else:
            return None
    return rows


def _status_of_capture(v):
    """Status variant named inside a captured value built from Status::X.to_taskmap()"""
    found = []

    def walk(x, depth=0):
        if depth > 12 or not isinstance(x, tuple):
            return
        if len(x) >= 3 and x[0] == "A" and x[1] == "task::status::Status":
            found.append(x[2])
        for y in x:
            if isinstance(y, tuple):
                walk(y, depth + 1)

    walk(v)
    has_tm = _has(v, lambda z: z[0] == "C" and z[2].endswith("Status::to_taskmap"))
    return found[0] if len(found) == 1 and has_tm else None


def _closure_value_in(F, parent, callee_suffix, argidx):
    """the ('Cl', def, captures) value passed as argument `argidx` to the call `callee_suffix` in `parent`"""
    c = cfg_of(parent)
    try:
        paths = SymExec(parent, c).run()
    except Exception:
        return None
    for p in paths:
        for e in p.events:
            if any(n.endswith(callee_suffix) for n in e["names"]) and argidx < len(e["args"]):
                v = e["args"][argidx]
                if v[0] == "Cl":
                    return v
                if v[0] == "K" and isinstance(v[1], str) and v[1].startswith("fn:") and v[1][3:] in F.bodies:
                    # a named function passed as the predicate: no captures
                    return ("Cl", v[1][3:], ())
    return None


def _check_status_membership(F, R, cl, want, what, subject_of):
    """cl = ('Cl', def, captures): rows must be true exactly when the subject equals one of the
    captured status strings; the captured statuses must be `want`"""
    cb = F.bodies.get(cl[1])
    if cb is None:
        R.missing("R3", "closure body %s" % cl[1])
        return
    ups = cb.get("upvars", [])
    caps = {}
    for i, u in enumerate(ups):
        if i < len(cl[2]):
            caps[u] = _status_of_capture(cl[2][i])
    rows = _bool_rows(cb)
    if rows is None:
        R.violation("R3", cb["owner_fn"], "%s-table" % what, "cannot extract the truth table of the %s" % what, where(cb))
        return
    used = set()
    for conds, res in rows:
        T = set()
        for a, o in conds.items():
            if a[0] == "call" and a[1].endswith("PartialEq::eq") and o is True:
                for x in a[2]:
                    if x[0] == "P" and x[1] in caps:
                        T.add(x[1])
                        if not subject_of(a[2][0] if a[2][1] == x else a[2][1]):
                            R.violation("R3", cb["owner_fn"], "%s-subject" % what, "the %s compares something other than the task's status with the status strings" % what, where(cb))
                            return
        used |= T
        if bool(T) != res:
            R.violation("R3", cb["owner_fn"], "%s-polarity" % what, "the %s returns %s on the row {%s}" % (what, res, ", ".join("%s=%s" % (show_atom(a), o) for a, o in conds.items())), where(cb))
            return
    got = {caps.get(u) for u in used}
    if got != set(want):
        R.violation("R3", cb["owner_fn"], "%s-statuses" % what, "the %s accepts statuses %s; documented: %s" % (what, sorted(str(g) for g in got), sorted(want)), where(cb))
    else:
        R.ok("R3", "%s: true exactly for status in %s (%d rows)" % (what, sorted(want), len(rows)), where(cb))


def _check_status_membership_inline(F, R, body, want, what):
    """the same truth-table check for a predicate that names the statuses itself (`v == Status::X.to_taskmap()`), written
    as a function - possibly `opt.map(|v| ..).unwrap_or(false)`, which is false for None and the closure's value otherwise"""
    cb = body
    try:
        ps = [q for q in SymExec(cb, cfg_of(cb)).run() if q.end[0] == "return"]
    except Exception:
        ps = []
    if len(ps) == 1 and ps[0].ret and ps[0].ret[0] == "C" and str(ps[0].ret[2]).endswith("Option::<T>::unwrap_or"):
        a0, a1 = ps[0].ret[3][0], ps[0].ret[3][1]
        if a1 == ("K", "false") and a0[0] == "C" and str(a0[2]).endswith("Option::<T>::map") and a0[3][1][0] == "Cl" and a0[3][1][1] in F.bodies:
            cb = F.bodies[a0[3][1][1]]
    rows = _bool_rows(cb)
    if rows is None:
        R.violation("R3", cb["owner_fn"], "%s-table" % what, "cannot extract the truth table of the %s" % what, where(cb))
        return
    used = set()
    for conds, res in rows:
        T = set()
        for a, o in conds.items():
            if a[0] == "call" and a[1].endswith("PartialEq::eq") and o is True:
                for x in a[2]:
                    if x[0] == "C" and str(x[2]).endswith("Status::to_taskmap"):
                        for y in x[3]:
                            if y[0] == "A" and str(y[1]).endswith("Status"):
                                T.add(y[2])
        used |= T
        if bool(T) != res:
            R.violation("R3", cb["owner_fn"], "%s-polarity" % what, "the %s returns %s on the row {%s}" % (what, res, ", ".join("%s=%s" % (show_atom(a), o) for a, o in conds.items())), where(cb))
            return
    if used != set(want):
        R.violation("R3", cb["owner_fn"], "%s-statuses" % what, "the %s accepts statuses %s; documented: %s" % (what, sorted(used), sorted(want)), where(cb))
    else:
        R.ok("R3", "%s: true exactly for status in %s (%d rows)" % (what, sorted(want), len(rows)), where(cb))


def rule_R5(F, R):
    R.begin("R5", "a rebuild never reports success without writing back and committing what it computed (no successful exit bypasses the commit, unless old and new working set were found equal)")
    b = find_rebuild(F, "entry")
    if b is None:
        R.missing("R5", "the rebuild function")
        return
    c = cfg_of(b)
    fl = flow_of(b)
    commits = calls_matching(c, re.escape(TXN) + "::commit$")
    if not commits:
        R.violation("R5", b["owner_fn"], "no-commit", "rebuild never commits", where(b))
        return
    # successful exits: blocks assigning _0 = Ok(..)
    oks = [(i, st) for (i, j, st) in agg_sites(c, "result::Result", "Ok") if st["l"]["l"] == 0 or True]
    from tc.util import switch_true_edges
    eq_edges = []
    for s_ in sorted(c.reach):
        t = c.term(s_)
        if t and t["k"] == "switch":
            bo = bool_origin(fl, t["o"])
            if bo and any(re.search(r"PartialEq::(eq|ne)$", n) for n in call_names(bo[1])):
                tys = " ".join(bo[1].get("substs", []))
                if "Vec<std::option::Option<uuid::Uuid>>" in tys:
                    isne = any(n.endswith("::ne") for n in call_names(bo[1]))
                    eq_edges += switch_true_edges(c, s_, bo[2] != isne)
    r = c.reachable(0, removed={i for i, _t in commits}, removed_edges=eq_edges)
    bad = [i for (i, st) in oks if i in r and st["l"]["l"] == 0]
    if bad:
        R.violation("R5", b["owner_fn"], "success-without-commit", "rebuild can return Ok at %s without having written back and committed the working set it computed" % loc(c.blocks[bad[0]]["t"]["sp"]), where(b, bad[0]))
    else:
        R.ok("R5", "every successful exit of rebuild passes the commit", where(b, commits[0][0]))


def rule_R3(F, R):
    R.begin("R3", "predicates: Replica::rebuild_working_set keeps exactly status pending|recurring; Replica::commit_operations adds on property==status, old not in {p,r}, new in {p,r}; TaskDb::commit_operations adds each uuid once")
    want = ("Pending", "Recurring")
    rb = F.real_body("replica::Replica::<S>::rebuild_working_set")
    if rb is None:
        R.missing("R3", "Replica::rebuild_working_set")
    else:
        cl = _closure_value_in(F, rb, "TaskDb::<S>::rebuild_working_set", 1)
        if cl is None:
            R.missing("R3", "the predicate closure passed to TaskDb::rebuild_working_set")
        else:
            def subj(v):
                return _has(v, lambda z: z[0] == "C" and z[2].endswith("::get") and any(a == ("K", '"status"') for a in z[3]))
            _check_status_membership(F, R, cl, want, "working-set predicate", subj)
    co = F.real_body("replica::Replica::<S>::commit_operations")
    if co is None:
        R.missing("R3", "Replica::commit_operations")
    else:
        cl = _closure_value_in(F, co, "TaskDb::<S>::commit_operations", 2)
        if cl is None:
            R.missing("R3", "the trigger closure passed to TaskDb::commit_operations")
        else:
            cb = F.bodies[cl[1]]
            rows = _bool_rows(cb)
            ups = cb.get("upvars", [])
            inner = None
            for i, u in enumerate(ups):
                if i < len(cl[2]) and cl[2][i][0] == "Cl":
                    inner = (u, cl[2][i])
            inner_fn = None
            if inner is None and rows is not None:
                # the status test may be a named function instead of a captured closure
                names_ = {a[2] for conds, _r in rows for a in conds if a[0] == "call#" and a[2] in F.bodies and (_has(a[3], lambda z: z[0] == "F" and z[3] in ("old_value", "value")))}
                if len(names_) == 1:
                    inner_fn = sorted(names_)[0]
                    inner = ("fn", ("Cl", inner_fn, ()))
            if rows is None or inner is None:
                R.violation("R3", cb["owner_fn"], "commit-trigger-table", "cannot extract the truth table of the add-to-working-set trigger", where(cb))
            else:
                bad = None
                ntrue = 0
                for conds, res in rows:
                    isupd = any(a[0] == "variant" and o == "Update" for a, o in conds.items())
                    prop = [o for a, o in conds.items() if a[0] == "call" and a[1].endswith("PartialEq::eq") and ("K", '"status"') in a[2] and _has(a[2], lambda z: z[0] == "F" and z[3] == "property")]
                    oldv = [o for a, o in conds.items() if a[0] == "call#" and _has(a[3], lambda z: z[0] == "F" and z[3] == "old_value")]
                    newv = [o for a, o in conds.items() if a[0] == "call#" and _has(a[3], lambda z: z[0] == "F" and z[3] == "value")]
                    should = isupd and prop == [True] and oldv == [False] and newv == [True]
                    if should:
                        ntrue += 1
                    if should != res:
                        bad = "the trigger returns %s on the row {%s}" % (res, ", ".join("%s=%s" % (show_atom(a), o) for a, o in conds.items()))
                if bad or ntrue != 1:
                    R.violation("R3", cb["owner_fn"], "commit-trigger-table", bad or "the trigger is never true for a transition into pending/recurring", where(cb))
                else:
                    R.ok("R3", "commit trigger: Update ∧ property==status ∧ !p_or_r(old) ∧ p_or_r(new) (%d rows)" % len(rows), where(cb))
                if inner_fn is None:
                    _check_status_membership(F, R, inner[1], want, "pending-or-recurring test", lambda v: True)
                else:
                    _check_status_membership_inline(F, R, F.bodies[inner_fn], want, "pending-or-recurring test")
    tb = F.real_body("taskdb::TaskDb::<S>::commit_operations")
    if tb is None:
        R.missing("R3", "TaskDb::commit_operations")
        return
    c = cfg_of(tb)
    fl = flow_of(tb)
    adds = calls_matching(c, re.escape(TXN) + "::add_to_working_set$")
    for (i, t) in adds:
        okg = False
        for (s, labs) in guards_of(c, i):
            if is_plumbing(c.term(s)):
                continue
            bo = bool_origin(fl, c.term(s)["o"])
            if bo and any(n.endswith("::contains") or re.search(r"(HashSet::<T, S, A>|BTreeSet::<T, A>)::insert$", n) for n in call_names(bo[1])):
                okg = True   # the exact form (polarity, the set kept up to date, its origin) is R7's
        if okg:
            R.ok("R3", "add_to_working_set guarded by a membership test", where(tb, i))
        else:
            R.violation("R3", tb["owner_fn"], "add-without-membership-test", "a task can be added to the working set twice in one commit", where(tb, i))
    R.floor("R3", "add_to_working_set sites in TaskDb::commit_operations", len(adds), 1)


def rule_R4(F, R):
    R.begin("R4", "Replica::sync and Replica::commit_reversed_operations rebuild the working set with renumber = false")
    n = 0
    for fn in ("replica::Replica::<S>::sync", "replica::Replica::<S>::commit_reversed_operations"):
        b = F.real_body(fn)
        if b is None:
            R.missing("R4", fn)
            continue
        c = cfg_of(b)
        calls = calls_matching(c, r"replica::Replica::<S>::rebuild_working_set$")
        if not calls:
            R.violation("R4", fn, "no-rebuild", "%s does not rebuild the working set" % fn.split("::")[-1], where(b))
            continue
        for (i, t) in calls:
            n += 1
            a = t["args"][1]
            if "k" in a and str(a["k"].get("val")) == "false":
                R.ok("R4", "%s: rebuild_working_set(false)" % fn.split("::")[-1], where(b, i))
            else:
                R.violation("R4", fn, "renumber-not-false", "%s rebuilds the working set with renumbering, so task numbers change behind the user's back" % fn.split("::")[-1], where(b, i))
    R.floor("R4", "rebuild calls with a constant argument", n, 2)


# ---------------------------------------------------------------------------------------
# C05: L1 logging, A1 dispatch table

OVERWRITE = re.compile(r"HashMap::<K, V, S, A>::(insert|remove)$|hash_map::OccupiedEntry::<'a, K, V, A>::(remove|insert|remove_entry)$|HashMap::<K, V, S, A>::clear$")
REORDER = re.compile(r"::(rev|filter|filter_map|skip|skip_while|take|take_while|step_by|sort|sort_by|sort_by_key|sort_unstable|sort_unstable_by|reverse|retain|dedup|dedup_by|dedup_by_key|swap|rotate_left|rotate_right|truncate|split_off|pop|remove|swap_remove)$")


def rule_L1(F, R):
    R.begin("L1", "every operation of the batch is logged with add_operation, in order, unconditionally, from the same `operations` value that was applied")
    b = F.real_body("taskdb::TaskDb::<S>::commit_operations")
    if b is None:
        R.missing("L1", "TaskDb::commit_operations")
        return
    c = cfg_of(b)
    fl = flow_of(b)
    subj = b["owner_fn"]
    adds = calls_matching(c, re.escape(TXN) + "::add_operation$")
    if not R.floor("L1", "add_operation sites in TaskDb::commit_operations", len(adds), 1):
        return
    commit = calls_matching(c, re.escape(TXN) + "::commit$")
    loops = c.loops()
    for (i, t) in adds:
        lp = [(h, body) for h, body in loops.items() if i in body]
        if not lp:
            R.violation("L1", subj, "logging-not-in-loop", "add_operation is not called once per operation", where(b, i))
            continue
        h, body = min(lp, key=lambda x: len(x[1]))
        # every iteration logs: from the Some edge of the iterator, all paths to the back edge pass add_operation
        backs = [s for (s, d) in c.back_edges() if d == h]
        entry_paths_ok = True
        r = c.reachable(h, removed={i})
        # can we get from header around to a back edge source and to the header again without i?  (ignoring the exit edge)
        skip = [s for s in backs if s in r]
        if skip:
            # the None exit is legitimate: check that back-edge sources are only reachable through i, except trivially when loop exits
            R.violation("L1", subj, "conditional-logging", "an iteration of the logging loop can finish without add_operation: some operations of the batch are applied but not recorded", where(b, i))
        else:
            R.ok("L1", "every iteration logs its operation", where(b, i))
        s = fl.slice_operand(t["args"][1])
        if "operations" not in s.upvars():
            R.violation("L1", subj, "logged-value-not-operations", "the logged value does not derive from the committed `operations`", where(b, i))
        else:
            bad = sorted({n for n in s.call_names() if REORDER.search(n)})
            if bad:
                R.violation("L1", subj, "logged-order-changed", "the logged operations pass through %s (order/selection changes)" % bad[0], where(b, i))
            else:
                R.ok("L1", "logged value iterates `operations` without reordering/filtering adaptors", where(b, i))
        if commit and not c.dominates(h, commit[0][0]):
            R.violation("L1", subj, "commit-without-logging", "commit is reachable without running the logging loop", where(b, commit[0][0]))
    import roles
    aof = roles.apply_operations_fn(F)
    ap = calls_matching(c, "^" + re.escape(aof) + "$") if aof else []
    if not ap:
        R.violation("L1", subj, "no-apply", "commit_operations does not apply the operations", where(b))
    else:
        s = fl.slice_operand(ap[0][1]["args"][1])
        if "operations" in s.upvars():
            R.ok("L1", "apply_operations receives the same `operations`", where(b, ap[0][0]))
        else:
            R.violation("L1", subj, "applied-value-not-operations", "apply_operations is not given the committed `operations`", where(b, ap[0][0]))


_REMOVE = re.compile(r"HashMap::<K, V, S, A>::(remove|remove_entry)$|hash_map::OccupiedEntry::<'a, K, V, A>::(remove|remove_entry)$")


def _drops_pending(F, path):
    """does this path take an entry out of the write cache and neither write it with set_task
    nor establish that it held no pending task (the removed value tested to be None)?"""
    removes = [e for e in path.events if any(_REMOVE.search(n) for n in e["names"])]
    for r in removes:
        written = any(e["callee"].endswith("StorageTxn::set_task") and _has(e["args"], lambda v: v[0] == "C" and v[1] == r["id"]) for e in path.events)
        if written:
            continue
        def direct(v):
            # the removed value itself, or a field of it - not the result of passing it through another call
            # (Option::filter and friends turn a pending Some into None)
            while v and v[0] == "F":
                v = v[1]
            return bool(v) and v[0] == "C" and v[1] == r["id"]
        tests = [(a, o) for (a, o, _bb) in path.atoms if a[0] == "variant" and direct(a[1])]
        if tests and tests[-1][1] == "None":
            continue
        return True
    return False


_hdp_cache = {}
from tc.util import register_cache as _reg
_reg(_hdp_cache)


def _helper_drops_pending(F, name):
    key = (id(F), name)
    if key in _hdp_cache:
        return _hdp_cache[key]
    _hdp_cache[key] = False
    hb = F.real_body(name)
    res = False
    if hb is not None:
        try:
            for q in SymExec(hb, cfg_of(hb), max_paths=500).run():
                if q.end[0] == "return" and not (q.ret[0] == "A" and q.ret[2] == "Err") and _drops_pending(F, q):
                    res = True
        except Exception:
            res = False
    _hdp_cache[key] = res
    return res


def rule_A1(F, R):
    R.begin("A1", "batch application dispatch (one loop iteration): Create invalidates/flushes the cached entry of that task and calls create_task; Delete calls delete_task and overwrites the cache entry; Update goes through the cache and writes nothing when the task is absent; UndoPoint touches nothing; afterwards every cached task is written back")
    import roles
    aof = roles.apply_operations_fn(F)
    b = F.real_body(aof) if aof else None
    if b is None:
        R.missing("A1", "the taskdb function that applies a batch of operations (calls StorageTxn::create_task, takes &Operations)")
        return
    c = cfg_of(b)
    fl = flow_of(b)
    subj = b["owner_fn"]
    loops = c.loops()
    main = None
    for h, body in loops.items():
        if any(any(n.endswith("StorageTxn::create_task") for n in call_names(c.term(i))) for i in body if c.term(i) and c.term(i)["k"] == "call"):
            main = (h, body)
    if main is None:
        R.missing("A1", "the dispatch loop (calls StorageTxn::create_task)")
        return
    # cache local: HashMap<Uuid, Option<TaskMap>>
    cache = [i for i, l in enumerate(b["locals"]) if l["ty"].startswith("std::collections::HashMap<uuid::Uuid, std::option::Option<") and l.get("name")]
    if len(cache) != 1:
        R.missing("A1", "the write cache HashMap<Uuid, Option<TaskMap>>")
        return
    cache = cache[0]

    def helper_kind(e):
        """classify a call event w.r.t. the cache: 'overwrite' if it (or a crate-local helper it names) removes/overwrites an entry"""
        for n in e["names"]:
            if OVERWRITE.search(n):
                return "overwrite"
        for n in e["names"]:
            hb = F.real_body(n) if n in F.bodies else None
            if hb is not None:
                cone = F.reachable_from([hb["path"]])
                for q in cone:
                    for (_i, t) in F.calls_in.get(q, ()):
                        if any(OVERWRITE.search(x) for x in call_names(t)):
                            return "overwrite-helper"
        return None

    def touches_cache(e):
        return any(_has(a, lambda v: v in (("?", "uninit:%s" % b["locals"][cache]["name"]), ("P", b["locals"][cache]["name"]))) or (a[0] == "M") for a in e["args"])

    paths = SymExec(b, c, region=main[1], entry=main[0]).run()
    seen = set()
    for p in paths:
        if p.end[0] != "backedge":
            continue
        kind = None
        item = _item(p)
        for (a, o, _bb) in p.atoms:
            if a[0] == "variant" and item is not None and a[1] == ("F", item, "Some", 0):
                kind = o
        if kind is None:
            continue
        evs = [e for e in p.events if not e["callee"].startswith("std::iter::") and not e["callee"].startswith("core::")]
        st = [e for e in evs if any(n.startswith(TXN + "::") for n in e["names"])]
        names = [e["callee"].split("::")[-1] for e in evs]
        desc = "%s: %s" % (kind, ", ".join(names))
        uuid = ("F", ("F", item, "Some", 0), kind, "uuid")
        w = where(b, p.blocks[-1])
        if kind == "Create":
            seen.add(kind)
            ct = [e for e in st if e["callee"].endswith("::create_task")]
            ow = [e for e in evs if helper_kind(e) and _has(e["args"], lambda v: v == uuid)]
            dropped = _drops_pending(F, p) or any(_helper_drops_pending(F, e["callee"]) for e in ow if e["callee"] in F.bodies)
            if len(ct) != 1 or ct[0]["args"][-1] != uuid:
                R.violation("A1", subj, "create-arm", "Create must call create_task(uuid) exactly once: %s" % desc, w)
            elif dropped:
                R.violation("A1", subj, "create-drops-pending-updates", "the Create arm removes the cached entry of that task without writing it: updates made earlier in the batch to the (existing) task and not yet written are lost, while the operations log still records them: %s" % desc, w)
            elif not ow:
                R.violation("A1", subj, "create-keeps-stale-cache", "the Create arm does not remove or overwrite the cached entry of that task: a cached `absent` (from an earlier update of the then-missing task) makes later updates in the batch vanish: %s" % desc, w)
            else:
                R.ok("A1", desc, w)
        elif kind == "Delete":
            seen.add(kind)
            dt = [e for e in st if e["callee"].endswith("::delete_task")]
            ow = [e for e in evs if helper_kind(e) and _has(e["args"], lambda v: v == uuid)]
            if len(dt) != 1 or dt[0]["args"][-1] != uuid:
                R.violation("A1", subj, "delete-arm", "Delete must call delete_task(uuid) exactly once: %s" % desc, w)
            elif not ow:
                R.violation("A1", subj, "delete-keeps-pending-write", "the Delete arm leaves a cached pending write for the task: the final flush would resurrect it: %s" % desc, w)
            else:
                R.ok("A1", desc, w)
        elif kind == "Update":
            seen.add(kind)
            writes = [e for e in st if re.search(r"::(set_task|create_task|delete_task)$", e["callee"])]
            absent = any(o == "None" for (a, o, _bb) in p.atoms if a[0] == "variant" and a[1][0] == "F" and _has(a[1], lambda v: v[0] == "C" and v[2] in F.bodies))
            # the documented rule looks at the task and the new value only: an Update is applied whatever it
            # says the previous value was (old_value is a record for undo, taken from the caller's copy of the
            # task, which may be stale) and whatever its timestamp
            extra = [(a, o) for (a, o, _bb) in p.atoms if _has(a, lambda v: v[0] == "F" and len(v) > 3 and v[3] in ("old_value", "timestamp") and v[2] == "Update")]
            if extra:
                R.violation("A1", subj, "update-conditional-on-old-value", "whether the Update is applied depends on `%s` = %s: an update recorded through a stale copy of the task (old_value equal to the new value) is logged and synchronised but not applied locally" % (show_atom(extra[0][0])[:100], extra[0][1]), w)
            elif writes:
                R.violation("A1", subj, "update-writes-directly", "the Update arm writes to storage directly instead of through the cache: %s" % desc, w)
            else:
                R.ok("A1", desc + (" (task absent: nothing written)" if absent else ""), w)
        elif kind == "UndoPoint":
            seen.add(kind)
            if st:
                R.violation("A1", subj, "undopoint-touches-storage", "UndoPoint must not touch storage: %s" % desc, w)
            else:
                R.ok("A1", desc, w)
    for k in ("Create", "Delete", "Update", "UndoPoint"):
        if k not in seen:
            R.violation("A1", subj, "row-missing:%s" % k, "the dispatch loop has no arm for %s" % k, where(b))
    # final flush: a later loop whose body reaches set_task through a helper and whose exit is emptiness of the cache
    fl_ok = False
    for h, body in loops.items():
        if h == main[0] or not c.dominates(main[0], h):
            continue
        for i in body:
            t = c.term(i)
            if t and t["k"] == "call":
                if any(n.endswith("StorageTxn::set_task") for n in call_names(t)):
                    fl_ok = True
                for n in call_names(t):
                    hb = F.real_body(n) if n in F.bodies else None
                    if hb is not None and any(any(x.endswith("StorageTxn::set_task") for x in call_names(tt)) for q in F.reachable_from([hb["path"]]) for (_j, tt) in F.calls_in.get(q, ())):
                        fl_ok = True
    if fl_ok:
        R.ok("A1", "final flush loop writes cached tasks with set_task", where(b))
    else:
        R.violation("A1", subj, "no-final-flush", "after the dispatch loop the cached tasks are not written back", where(b))
    # eviction discipline: entries leave the cache only one key at a time (flush / overwrite) or through a
    # bulk removal that hands *every* entry on: a `drain()` cut short by an iterator adaptor, or a
    # retain/clear before the final flush, drops pending writes
    PARTIAL = re.compile(r"^std::iter::Iterator::(take|skip|step_by|take_while|skip_while|nth|last|find|any|all|position|filter|min|max)$")
    BULK = re.compile(r"HashMap::<K, V, S, A>::(drain|retain|clear|extract_if)$")
    cty = b["locals"][cache]["ty"]
    nb = 0
    for q in sorted({b["path"]} | {x for x in F.reachable_from([b["path"]]) if x.startswith(b["owner_fn"])}):
        qb = F.bodies.get(q)
        if qb is None or not qb.get("blocks"):
            continue
        qc = cfg_of(qb)
        qf = None
        for (i, t) in qc.calls():
            names = call_names(t)
            m = next((BULK.search(n) for n in names if BULK.search(n)), None)
            if m and t["args"]:
                pl = op_place(t["args"][0])
                ty = qb["locals"][pl["l"]]["ty"] if pl else ""
                if cty not in ty:
                    continue
                nb += 1
                kind = m.group(1)
                if kind in ("retain", "extract_if"):
                    R.violation("A1", subj, "cache-eviction:" + kind, "the write cache is pruned with %s: entries holding pending updates are dropped without set_task" % kind, where(qb, i))
                elif kind == "clear":
                    if q != b["path"] or not fl_ok or any(h != main[0] and c.dominates(main[0], h) and not (i in body_ or c.dominates(h, i)) for h, body_ in loops.items()):
                        R.violation("A1", subj, "cache-eviction:clear", "the write cache is cleared before the final flush: pending updates are dropped without set_task", where(qb, i))
            if any(PARTIAL.search(n) for n in names) and t["args"]:
                qf = qf or flow_of(qb)
                sl = qf.slice_operand(t["args"][0])
                if any(BULK.search(n) and BULK.search(n).group(1) == "drain" for tt in sl.calls.values() for n in call_names(tt)):
                    R.violation("A1", subj, "cache-eviction:partial-drain", "a drain() of the write cache is cut short by %s: drain removes every entry, but only the ones iterated are written back" % names[0].split("::")[-1], where(qb, i))
    R.info("A1", "bulk removals from the write cache examined: %d" % nb)
    R.extra["exhaustive"] = True


def rule_R6(F, R):
    R.begin("R6", "Replica::sync: once the TaskDb sync has succeeded, every successful return has rebuilt the working set (unconditionally: a sync that exchanged nothing may be the repeat of one that was interrupted after its transaction committed and before the rebuild)")
    from tc.util import error_blocks
    rb = find_rebuild(F, "entry")
    if rb is None:
        R.missing("R6", "the working-set rebuild function")
        return
    rebuild_owner = rb["owner_fn"] if rb.get("owner_fn") else rb["path"]
    # the replica method(s) that run the TaskDb sync: Replica methods whose body calls a taskdb function that reaches Server::add_version
    n = 0
    for p, b in sorted(F.bodies.items()):
        im = b.get("impl") or {}
        if b["kind"] != "AssocFn" or not im.get("self", "").startswith("replica::Replica<") or im.get("trait"):
            continue
        body = F.real_body(p)
        if body is None:
            continue
        c = cfg_of(body)

        def reaches(n_, pred):
            if n_ not in F.bodies:
                return False
            return any(pred(t) for q in F.reachable_from([n_]) for (_i, t) in F.calls_in.get(q, ()))
        syncs = [(i, t) for (i, t) in c.calls() if any(x.startswith("taskdb::") and reaches(x, lambda t2: any(y.endswith("server::types::Server::add_version") for y in call_names(t2))) for x in call_names(t))]
        if not syncs:
            continue
        n += 1
        rebuilds = {i for (i, t) in c.calls() if any((x in F.bodies) and (F.owner(x) == rebuild_owner or rebuild_owner in {F.owner(q) for q in F.reachable_from([x])}) for x in call_names(t))}
        errs = error_blocks(c)
        for (i, t) in syncs:
            r = c.reachable_after(i, removed=rebuilds | errs)
            if any(k in r for k in c.exits()):
                R.violation("R6", p, "sync-without-rebuild", "Replica::sync can return successfully without rebuilding the working set: pending tasks pulled by a sync whose rebuild was interrupted never enter the working set, because the repeated sync finds nothing to exchange", where(body, i))
            else:
                R.ok("R6", "every successful return of the replica's sync has rebuilt the working set", where(body, i))
    R.floor("R6", "Replica methods that run the TaskDb sync", n, 1)
    # the same after an undo: once TaskDb::commit_reversed_operations reports that it did undo something,
    # every successful return has rebuilt the working set (a reversed Delete brings a pending task back
    # through Create + Updates of old_task, not through a status Update)
    from tc.util import switch_true_edges
    m = 0
    for p, b in sorted(F.bodies.items()):
        im = b.get("impl") or {}
        if b["kind"] != "AssocFn" or not im.get("self", "").startswith("replica::Replica<") or im.get("trait"):
            continue
        body = F.real_body(p)
        if body is None:
            continue
        c = cfg_of(body)
        undos = calls_matching(c, r"^taskdb::TaskDb::<S>::commit_reversed_operations$")
        if not undos:
            continue
        m += 1
        fl = flow_of(body)
        rebuilds = {i for (i, t) in c.calls() if any((x in F.bodies) and (F.owner(x) == rebuild_owner or rebuild_owner in {F.owner(q) for q in F.reachable_from([x])}) for x in call_names(t))}
        errs = error_blocks(c)
        for (i, t) in undos:
            # edges on which the undo reported `false` (nothing undone): leaving without a rebuild is right there
            false_edges = set()
            for s in sorted(c.reach):
                tt = c.term(s)
                if tt and tt["k"] == "switch":
                    bo = bool_origin(fl, tt["o"])
                    if bo and bo[0] == i:
                        te = {(a_, b_) for (a_, b_, _lab) in switch_true_edges(c, s, bo[2])}
                        for (j, lab) in c.succ[s]:
                            if (s, j) not in te:
                                false_edges.add((s, j))
            r = c.reachable_after(i, removed=rebuilds | errs, removed_edges=false_edges)
            if any(k in r for k in c.exits()):
                R.violation("R6", p, "undo-without-rebuild", "after an undo that changed tasks the replica can return successfully without rebuilding the working set: a task brought back to pending by reversing its deletion is missing from the working set", where(body, i))
            else:
                R.ok("R6", "every successful undo has rebuilt the working set", where(body, i))
    R.floor("R6", "Replica methods that run the TaskDb undo", m, 1)


def rule_R7(F, R):
    R.begin("R7", "commit_operations adds a task to the working set at most once: every add_to_working_set(uuid) is guarded by a membership test on a set that starts as the stored working set and takes up each added uuid (so a task named by several operations of the batch, also non-adjacent ones, is added once, and one already present is not added)")
    from tc.util import ref_base, switch_true_edges
    n = 0
    for p, b in sorted(F.bodies.items()):
        if not p.startswith("taskdb::") or p.startswith("taskdb::working_set") or not b.get("blocks"):
            continue
        c = cfg_of(b)
        adds = calls_matching(c, re.escape(TXN) + "::add_to_working_set$")
        if not adds:
            continue
        fl = flow_of(b)
        for (i, t) in adds:
            n += 1
            verdict = None
            for (s, labs) in guards_of(c, i):
                bo = bool_origin(fl, c.term(s)["o"])
                if not bo:
                    continue
                names = call_names(bo[1])
                te = {lab for (_s, _j, lab) in switch_true_edges(c, s, bo[2])}
                on_true = set(labs) <= te
                if any(re.search(r"HashSet::<T, S, A>::contains$|BTreeSet::<T, A>::contains$", x) for x in names) and not on_true:
                    st = ref_base(fl, bo[1]["args"][0])
                    ssl = fl.slice_local(st) if st is not None else None
                    from_ws = bool(ssl and ssl.has_call(r"StorageTxn::get_working_set$"))
                    # only adaptors applied to the stored working set itself count (the set also receives the uuids
                    # being added, which may come out of a filtered iteration over the batch)
                    cutters = sorted({x.split("::")[-1] for (_cb, ct) in (ssl.calls.items() if ssl else ()) for x in call_names(ct)
                                      if re.search(r"Iterator::(map_while|take_while|take|skip_while|step_by|filter|nth|last|find)$", x)
                                      and ct.get("args") and fl.slice_operand(ct["args"][0]).has_call(r"StorageTxn::get_working_set$")})
                    if from_ws and cutters:
                        verdict = verdict or "the membership set is built from the stored working set through %s: it stops at the first gap / leaves entries out, so a task that holds a slot behind a gap is added again" % cutters[0]
                        continue
                    ins = [k for (k, tt) in c.calls() if any(re.search(r"(HashSet::<T, S, A>|BTreeSet::<T, A>)::insert$", x) for x in call_names(tt)) and ref_base(fl, tt["args"][0]) == st and c.dominates(i, k)]
                    # the uuid inserted is the one added
                    same = [k for k in ins if fl.slice_operand(c.term(k)["args"][1]).roots & fl.slice_operand(t["args"][-1]).roots]
                    if not from_ws:
                        verdict = verdict or "the membership set is not initialised from the stored working set"
                    elif not same:
                        verdict = verdict or "the added uuid is not put into the membership set: a task named again later in the same batch is added a second time"
                    else:
                        verdict = "ok"
                elif any(re.search(r"(HashSet::<T, S, A>|BTreeSet::<T, A>)::insert$", x) for x in names) and on_true:
                    st = ref_base(fl, bo[1]["args"][0])
                    ssl = fl.slice_local(st) if st is not None else None
                    cutters2 = sorted({x.split("::")[-1] for (_cb, ct) in (ssl.calls.items() if ssl else ()) for x in call_names(ct)
                                       if re.search(r"Iterator::(map_while|take_while|take|skip_while|step_by|filter|nth|last|find)$", x)
                                       and ct.get("args") and fl.slice_operand(ct["args"][0]).has_call(r"StorageTxn::get_working_set$")})
                    if ssl and ssl.has_call(r"StorageTxn::get_working_set$") and cutters2:
                        verdict = verdict or "the membership set is built from the stored working set through %s: it stops at the first gap / leaves entries out, so a task that holds a slot behind a gap is added again" % cutters2[0]
                    else:
                        verdict = "ok" if (ssl and ssl.has_call(r"StorageTxn::get_working_set$")) else (verdict or "the membership set is not initialised from the stored working set")
            if verdict == "ok":
                R.ok("R7", "add_to_working_set guarded by a membership set that is kept up to date", where(b, i))
            else:
                R.violation("R7", F.owner(p), "working-set-add-not-once", "add_to_working_set is not protected against adding a task twice: %s" % (verdict or "no membership guard"), where(b, i))
    R.floor("R7", "add_to_working_set sites in taskdb (outside the rebuild)", n, 1)


def rule_R8(F, R):
    R.begin("R8", "rebuild write-back order: the writes that blank the tail (set_working_set_item(i, None) for the indices beyond the new length) come last. The storage contract lets set_working_set_item address only existing indices, and the in-memory storage drops trailing blanks after every write: an in-range write issued after the tail was blanked can find its index gone, and the rebuild fails with the gaps left in place")
    b = find_rebuild(F, "write")
    if b is None:
        R.missing("R8", "the rebuild function")
        return
    c = cfg_of(b)
    sets = calls_matching(c, re.escape(TXN) + "::set_working_set_item$")
    if not R.floor("R8", "set_working_set_item sites in the rebuild", len(sets), 2):
        return
    fl = flow_of(b)

    def writes_const_none(t):
        a = t["args"][-1]
        if "k" in a:
            return "None" in str(a["k"].get("repr", ""))
        sl = fl.slice_operand(a)
        return (not sl.params()) and (not sl.root_calls()) and all(r[0] in ("const", "unit", "agg") or (r[0] == "opaque") for r in sl.roots) and any("None" in str(r) for r in sl.roots)
    blank = [(i, t) for (i, t) in sets if writes_const_none(t)]
    if not blank:
        R.info("R8", "no constant-None tail write found (the tail may be cleared another way)")
        R.ok("R8", "no tail-blanking write precedes another write", where(b))
        return
    for (i, t) in blank:
        later = [k for (k, _t2) in sets if k != i and k in c.reachable_after(i)]
        if later:
            R.violation("R8", b["owner_fn"], "write-after-tail-blanked", "set_working_set_item at %s can run after the tail of the working set was blanked at %s: on the in-memory storage the blanked tail is trimmed at once, so a following write to an index that was the last occupied-or-blank slot fails (`Index N is not in the working set`) and the rebuild is abandoned" % (loc(c.term(later[0])["sp"]), loc(t["sp"])), where(b, i))
        else:
            R.ok("R8", "tail blanking is the last group of writes", where(b, i))


def rule_L2(F, R):
    R.begin("L2", "a batch handed to Replica::commit_operations reaches TaskDb::commit_operations whole and once: the call is not inside a loop and its operations argument is the caller's batch, not a slice of it (each TaskDb commit is one transaction: slicing makes a large batch take effect in parts)")
    n = 0
    for p, b in sorted(F.bodies.items()):
        im = b.get("impl") or {}
        if b["kind"] != "AssocFn" or not im.get("self", "").startswith("replica::Replica<") or im.get("trait"):
            continue
        body = F.real_body(p)
        if body is None:
            continue
        c = cfg_of(body)
        calls = calls_matching(c, r"^taskdb::TaskDb::<S>::commit_operations(::<.*>)?$")
        if not calls:
            continue
        fl = flow_of(body)
        loops = c.loops()
        for (i, t) in calls:
            n += 1
            in_loop = any(i in lb for lb in loops.values())
            s = fl.slice_operand(t["args"][1])
            cut = sorted({x.split("::")[-1] for x in s.call_names() if re.search(r"::(split_off|drain|truncate|chunks|chunks_exact|split_at|take|skip|step_by|pop|remove|retain|filter)$", x)})
            if in_loop:
                R.violation("L2", p, "commit-in-loop", "TaskDb::commit_operations is called inside a loop: the batch is committed in several transactions, and a failure in a later one leaves the earlier ones in effect", where(body, i))
            elif cut:
                R.violation("L2", p, "batch-sliced:" + cut[0], "the operations handed to TaskDb::commit_operations pass through %s: not the whole batch is committed in this transaction" % cut[0], where(body, i))
            else:
                R.ok("L2", "%s hands its whole batch to one TaskDb commit" % p.split("::")[-1], where(body, i))
    R.floor("L2", "Replica methods calling TaskDb::commit_operations", n, 1)


def rule_ERR(F, R):
    R.begin("ERR", "error discipline of the local actions (batch application, commit, undo, working-set rebuild, snapshot application): the result of every call that writes the storage is examined, and a reported error ends the action with that failure. A swallowed error lets the transaction commit with the failed step missing (a task whose Delete is in the log still exists; the batch is neither whole nor absent)")
    import roles
    writers = roles.writer_methods(F)

    def is_writer(name):
        return name.startswith(TXN + "::") and name.split("::")[-1] in writers
    _wt = {}

    def writes_through(name):
        """a taskdb function that itself writes the storage (apply_op, ...): its error is a storage-writing step's error"""
        if name not in _wt:
            nb = F.bodies.get(name)
            ok_ = False
            if nb is not None and name.startswith("taskdb::") and nb["kind"] in ("Fn", "AssocFn"):
                ok_ = roles.cone_reaches(F, name, lambda t_: any(is_writer(x) for x in call_names(t_)))
            _wt[name] = ok_
        return _wt[name]
    targets = []
    aof = roles.apply_operations_fn(F)
    if aof:
        targets.append(aof)
    asf = roles.apply_snapshot_fn(F)
    if asf:
        targets.append(asf)
    for role_ in ("scan", "write", "entry"):
        rb = find_rebuild(F, role_)
        if rb is not None and rb["path"] not in targets:
            targets.append(rb["path"])
    for p, b in F.bodies.items():
        if b["kind"] in ("Fn", "AssocFn") and p.startswith("taskdb::") and F.owner(p) == p:
            rbody = F.real_body(p)
            if rbody is None or rbody["path"] in targets or p in targets:
                continue
            cs = [t for (_i, t) in cfg_of(rbody).calls()]
            if any(any(x.endswith("StorageTxn::commit") for x in call_names(t)) for t in cs) and not any(any(x.endswith("server::types::Server::add_version") for x in call_names(t)) for t in cs):
                targets.append(p)
        # helper closures / nested fns of the batch application (flush / get through the cache)
    if aof:
        for p in F.bodies:
            if p.startswith(F.owner(aof) + "::") and F.bodies[p]["kind"] in ("Fn",) and p not in targets:
                targets.append(p)
    n = 0
    for tp in sorted(set(targets)):
        body = F.real_body(tp) or F.bodies.get(tp)
        if body is None or not body.get("blocks"):
            continue
        c = cfg_of(body)
        try:
            paths = SymExec(body, c, max_paths=6000).run()
        except Exception as e:
            R.violation("ERR", tp, "table-extraction", "cannot enumerate the paths of %s: %s" % (tp, e), where(body))
            continue
        swallowed = {}
        ignored = {}
        examined = set()
        for p in paths:
            failed = p.end[0] == "return" and p.ret and ((p.ret[0] == "A" and p.ret[2] == "Err") or _err_residual(p.ret))
            for e in p.events:
                if not any(is_writer(x) or writes_through(x) for x in e["names"]):
                    continue
                step = e["callee"].split("::")[-1]
                examined.add(step)
                tests = [(a, o) for (a, o, _bb) in p.atoms if _has(a, lambda v: v[0] == "C" and v[1] == e["id"])]
                returned = p.ret is not None and _has(p.ret, lambda v: v[0] == "C" and v[1] == e["id"])
                later = any(e2["id"] > e["id"] for e2 in p.events) or p.end[0] in ("backedge",) or (p.end[0] == "return" and not returned)
                if not tests and not returned and later:
                    ignored.setdefault(step, p)
                for (a, o) in tests:
                    if a[0] == "variant" and o in ("Err", "Break") and not failed:
                        swallowed.setdefault(step, p)
        for step in sorted(examined):
            n += 1
            if step in ignored:
                R.violation("ERR", F.owner(tp), "result-ignored:" + step, "%s: the result of %s is never examined on a path that goes on: a failure of the storage is not noticed and the action completes without that step" % (tp.split("::")[-1], step), where(body, ignored[step].blocks[-1]))
            elif step in swallowed:
                R.violation("ERR", F.owner(tp), "error-swallowed:" + step, "%s: an error of %s does not end the action with that failure" % (tp.split("::")[-1], step), where(body, swallowed[step].blocks[-1]))
            else:
                R.ok("ERR", "%s: the result of %s is examined and its error ends the action" % (tp.split("::")[-1], step), where(body))
    R.floor("ERR", "storage-writing steps examined in the local actions", n, 10)


def _err_residual(v, depth=0):
    if depth > 6 or not isinstance(v, tuple):
        return False
    if v and v[0] == "F" and len(v) > 2 and v[2] in ("Err", "Break"):
        return True
    if v and v[0] == "C" and v[2].endswith("from_residual"):
        return True
    return any(_err_residual(x, depth + 1) for x in v if isinstance(x, tuple))
