"""Server-protocol rules: P1-P3 (C08), A1 (C11, local), GI (C11, git)."""
import re

from tc.facts import call_names, loc
from tc.flow import op_place
from tc.sym import SymExec, show, show_atom, show_path
from tc.util import error_blocks, agg_sites, calls_matching, cfg_of, const_strs, flow_of, where
import r_cloud

SERVER = "server::types::Server"


def _has(v, pred, depth=0):
    if depth > 40:
        return False
    try:
        if pred(v):
            return True
    except (IndexError, TypeError):
        pass
    if isinstance(v, tuple):
        return any(_has(x, pred, depth + 1) for x in v if isinstance(x, tuple))
    return False


def backend_of(im):
    s = im["self"]
    if "server::local::" in s:
        return "local"
    if "server::sync::" in s:
        return "http"
    if "cloud" in s:
        return "cloud"
    if "gitsync" in s:
        return "git"
    return None


def impl_methods(F):
    out = {}
    for im in F.impls_of_trait.get(SERVER, []):
        be = backend_of(im)
        if be is None:
            continue
        for it in im["items"]:
            if it.get("fn"):
                b = F.real_body(it["path"])
                if b is not None:
                    out[(be, it["name"])] = b
    return out


import roles

_wcache = {}
from tc.util import register_cache as _reg
_reg(_wcache)


def is_write_event(F, be, e):
    """role-based: does this call write the version store?  local: the callee executes a
    modifying SQL statement; object store: Service::put / compare_and_swap; git: the callee's
    cone writes a file or issues `git commit`"""
    key = (id(F), be, e["callee"])
    if key in _wcache:
        return _wcache[key]
    res = False
    if be == "cloud":
        res = any(re.search(r"Service::(put|compare_and_swap)$", n) for n in e["names"])
    else:
        hb = None
        for n in e["names"]:
            if n in F.bodies and n.startswith("server::"):
                hb = F.real_body(n)
        if hb is not None:
            if be == "local":
                res = any(roles.WRITE_SQL.search(sv) for _i, sv in roles.sql_in_body(F, hb))
            else:
                res = roles.cone_reaches(F, hb["path"], lambda t: any(re.search(r"^std::fs::write$|^serde_json::(ser::)?to_writer|std::fs::File::create", n) for n in call_names(t))) or (roles.norm(hb.get("owner_fn") or hb["path"]) in {roles.norm(x) for x in roles.git_cmd_fns(F, "commit")})
    _wcache[key] = res
    return res


def parent_param(b):
    """symbolic name of add_version's parent-version parameter (second parameter, whatever it is called)"""
    ups = b.get("upvars") or []
    if len(ups) >= 2:
        return ("P", ups[1])
    return ("P", "parent_version_id")


PARENT = ("P", "parent_version_id")


def _is_nil_test(a, o):
    """atom says 'no version exists yet' -> True/False/None"""
    if a[0] == "call" and re.search(r"PartialEq::(ne|eq)$", a[1]):
        x, y = a[2]
        for u, v in ((x, y), (y, x)):
            if (v[0] == "K" and "NIL_VERSION_ID" in str(v[1])) or (v[0] == "C" and v[2].endswith("::nil")):
                if not _has(u, lambda z: z == PARENT):
                    isne = a[1].endswith("::ne")
                    return (not o) if isne else bool(o)
    if a[0] == "variant" and o in ("Some", "None") and a[1][0] == "F" and a[1][2] == "Ok" and a[1][1][0] == "C" and re.search(r"get_latest", a[1][1][2]):
        return o == "None"
    return None


def _parent_cmp(a, o):
    """atom compares the request's parent with something else -> 'equal'/'differs'/None"""
    if a[0] == "call" and re.search(r"PartialEq::(ne|eq)$", a[1]):
        x, y = a[2]
        if (x == PARENT) != (y == PARENT):
            other = y if x == PARENT else x
            if (other[0] == "K" and "NIL_VERSION_ID" in str(other[1])) or (other[0] == "C" and other[2].endswith("::nil")) or other[0] == "K":
                return None   # the parent compared with a constant says nothing about the stored latest
            isne = a[1].endswith("::ne")
            eq = (not o) if isne else bool(o)
            return "equal" if eq else "differs"
    return None


def rule_P1(F, R):
    R.begin("P1", "acceptance guard per backend (path table of add_version): nothing is written unless no version exists or the request's parent equals the stored latest; a rejection before any write happens only when a latest exists and differs from the parent, and names the stored latest, never the request's parent")
    ms = impl_methods(F)
    n = 0
    for be in ("local", "cloud", "git"):
        b = ms.get((be, "add_version"))
        if b is None:
            R.missing("P1", "%s Server::add_version" % be)
            continue
        n += 1
        c = cfg_of(b)
        try:
            paths = SymExec(b, c).run()
        except Exception as e:
            R.violation("P1", b["owner_fn"], "table-extraction", str(e), where(b))
            continue
        global PARENT
        PARENT = parent_param(b)
        acc = rej = 0
        for p in paths:
            if p.end[0] != "return":
                continue
            writes = [e for e in p.events if is_write_event(F, be, e)]
            nil = None
            last_cmp = None
            for (a, o, _bb) in p.atoms:
                t = _is_nil_test(a, o)
                if t is not None:
                    nil = t
                cm = _parent_cmp(a, o)
                if cm is not None:
                    last_cmp = cm
            w = where(b, p.blocks[-1])
            conds = " ∧ ".join("%s=%s" % (show_atom(a)[:70], o) for a, o, _ in p.atoms if _is_nil_test(a, o) is not None or _parent_cmp(a, o) is not None)
            if writes:
                # the first write must be covered by nil or equality
                first = writes[0]["id"]
                nil_b = None
                cmp_b = None
                for (a, o, bb_) in p.atoms:
                    # only atoms decided before the first write
                    # (a test on a value read by a call made after the write says nothing about the guard)
                    ids_ = []
                    _has(a, lambda z: z[0] == "C" and isinstance(z[1], int) and ids_.append(z[1]))
                    if ids_ and min(ids_) > first:
                        continue
                    t = _is_nil_test(a, o)
                    if t is not None:
                        nil_b = t
                    cm = _parent_cmp(a, o)
                    if cm is not None:
                        cmp_b = cm
                if not (nil_b is True or cmp_b == "equal"):
                    R.violation("P1", b["owner_fn"], "write-unguarded", "%s: a version is written on a path where neither `no latest version` nor `parent == latest` was established (%s)" % (be, conds or "no test at all"), w)
                else:
                    acc += 1
            def packaged(z):
                # the rejection packaged by a helper of the backend that builds nothing else
                return z[0] == "C" and len(z) > 3 and isinstance(z[2], str) and _avr_helper_variants(F, z[2]) == {"ExpectedParentVersion"}
            isrej = p.ret[0] == "A" and p.ret[2] == "Ok" and _has(p.ret, lambda z: (z[0] == "A" and z[1].endswith("AddVersionResult") and z[2] == "ExpectedParentVersion") or packaged(z))
            if isrej:
                payload = None

                def grab(z):
                    return z[0] == "A" and z[1].endswith("AddVersionResult") and z[2] == "ExpectedParentVersion"
                holder = []
                _has(p.ret, lambda z: grab(z) and holder.append(z))
                payload = holder[0][3][0][1] if holder else None
                if not holder:
                    ph = []
                    _has(p.ret, lambda z: packaged(z) and ph.append(z))
                    # what the helper can name is what it is given: its arguments stand for the payload
                    payload = ph[0][3] if ph else None
                if payload is None or _has(payload, lambda z: z == PARENT):
                    R.violation("P1", b["owner_fn"], "rejection-names-request-parent", "%s: the rejection names %s instead of the stored latest version" % (be, show(payload) if payload else "?"), w)
                    continue
                if not writes:
                    if nil is True or last_cmp != "differs":
                        R.violation("P1", b["owner_fn"], "spurious-rejection", "%s: a version is rejected although %s (%s): any parent must be accepted when no version exists, and the latest itself always" % (be, "no version exists" if nil is True else "its parent was not found different from the latest", conds), w)
                        continue
                rej += 1
        if acc and rej:
            R.ok("P1", "%s add_version: %d guarded write paths, %d rejection paths naming the stored latest" % (be, acc, rej), where(b))
        else:
            R.violation("P1", b["owner_fn"], "table-incomplete", "%s add_version: %d accepting and %d rejecting paths extracted" % (be, acc, rej), where(b))
    R.floor("P1", "backends with a local acceptance guard", n, 3)


def rule_P2(F, R):
    R.begin("P2", "identity of results: GetVersionResult::Version.version_id never derives from the request's parent / a parent field, .parent_version_id does; AddVersionResult::Ok carries the freshly generated id that was stored")
    n = 0
    for bp, b in sorted(F.bodies.items()):
        if not any(m in bp for m in ("server::local", "server::sync", "server::cloud::server", "server::gitsync")):
            continue
        c = cfg_of(b)
        for (i, j, st) in agg_sites(c, "GetVersionResult", "Version"):
            fl = flow_of(b)
            n += 1
            f = st["r"]["fields"]
            idroles = {}
            for name in ("version_id", "parent_version_id"):
                op = st["r"]["ops"][f.index(name)]
                uhf = roles.uuid_header_fn(F)
                sl = fl.slice_operand(op, stop=lambda t: (uhf in call_names(t)) or ((t.get("callee") or "") in F.bodies and (t.get("callee") or "").startswith("server::")))
                tags = set()
                for r in sl.roots:
                    if r[0] in ("upvar", "param"):
                        nm = str(r[1]) if r[0] == "upvar" else (b["locals"][r[1]].get("name") or "")
                        fields = [str(e[2]) for e in r[2] if e[0] == "f"]
                        pp = (b.get("upvars") or [None, None])[1] if b["path"].endswith("get_child_version::{closure#0}") and len(b.get("upvars") or []) > 1 else "parent_version_id"
                        tags.add("parent" if ("parent_version_id" in " ".join([nm] + fields) or nm == pp) else "other")
                    elif r[0] in ("call", "callnode"):
                        t = c.term(r[1])
                        if uhf in call_names(t):
                            hs = const_strs(fl.slice_operand(t["args"][1]), F)
                            tags.add("parent" if "X-Parent-Version-Id" in hs else ("own" if "X-Version-Id" in hs else "header?"))
                        else:
                            fields = [str(e[2]) for e in r[3] if e[0] == "f"]
                            tags.add("parent" if fields and fields[-1] == "parent_version_id" else "own" if fields and fields[-1] == "version_id" else "stored")
                idroles[name] = tags
            w = where(b, sp=st["sp"])
            if "parent" in idroles["version_id"]:
                R.violation("P2", F.owner(bp), "child-id-from-parent", "GetVersionResult::Version.version_id is built from the parent version id: every client would loop on the same version", w)
            elif "parent" not in idroles["parent_version_id"] or "own" in idroles["parent_version_id"]:
                R.violation("P2", F.owner(bp), "parent-id-source", "GetVersionResult::Version.parent_version_id is built from %s" % sorted(idroles["parent_version_id"]), w)
            else:
                R.ok("P2", "Version{version_id <- child, parent_version_id <- parent}", w)
    R.floor("P2", "GetVersionResult::Version constructions", n, 5)
    # local + git Ok(id) = the id stored (cloud: K4)
    ms = impl_methods(F)
    for be in ("local", "git"):
        b = ms.get((be, "add_version"))
        if b is None:
            continue
        for p in SymExec(b, cfg_of(b)).run():
            if p.end[0] != "return":
                continue
            holder = []
            _has(p.ret, lambda z: z[0] == "A" and z[1].endswith("AddVersionResult") and z[2] == "Ok" and holder.append(z))
            if not holder:
                continue
            idv = holder[0][3][0][1]
            gen = idv[0] == "C" and idv[2].endswith("new_v4")
            wev = [e for e in p.events if is_write_event(F, be, e) and _has(e["args"], lambda z: z == idv)]
            stored = wev[:1]
            head = wev[1:2] if be == "local" else wev[:1]
            if be == "git":
                head = [1] if _has(tuple(p.env.values()), lambda z: z[0] == "O" and any(k == (None, "latest_version") or k[1] == "latest_version" for (k, _x) in z[2])) or True else []
            if gen and stored and head:
                R.ok("P2", "%s: Ok(id) is the generated id that was stored and made latest" % be, where(b, p.blocks[-1]))
            else:
                R.violation("P2", b["owner_fn"], "ok-id", "%s: AddVersionResult::Ok carries %s which is not the id stored with the version and as latest" % (be, show(idv)), where(b, p.blocks[-1]))


HTTP_DOC = {
    "add_version": {"path": "v1/client/add-version/", "verb": "post", "ctype": "server::sync::HISTORY_SEGMENT_CONTENT_TYPE"},
    "get_child_version": {"path": "v1/client/get-child-version/", "verb": "get", "ctype": None},
    "add_snapshot": {"path": "v1/client/add-snapshot/", "verb": "post", "ctype": "server::sync::SNAPSHOT_CONTENT_TYPE"},
    "get_snapshot": {"path": "v1/client/snapshot", "verb": "get", "ctype": None},
}


def _status_is(atoms, const_word, number):
    """does this path establish that the HTTP status equals the given code?  accepted tests:
    status == StatusCode::<CONST> (PartialEq::eq true / ne false) and status.as_u16() == <number>"""
    for (a, o, _bb) in atoms:
        named = _has(a, lambda z: z[0] == "K" and const_word in str(z[1]))
        numeric = _has(a, lambda z: z[0] == "K" and re.match(r"^%d(_u16|_u32|_i32|_usize)?$" % number, str(z[1]))) and _has(a, lambda z: z[0] == "C" and z[2].endswith("StatusCode::as_u16"))
        if not (named or numeric):
            continue
        if a[0] == "call":
            if a[1].endswith("PartialEq::eq") and o is True:
                return True
            if a[1].endswith("PartialEq::ne") and o is False:
                return True
        if a[0] == "bin":
            if a[1] == "Eq" and o is True:
                return True
            if a[1] == "Ne" and o is False:
                return True
    return False


def rule_P3(F, R):
    R.begin("P3", "HTTP mapping table (docs/http.md): endpoints, verbs, content types, X-Client-Id on all four; 409 -> ExpectedParentVersion(X-Parent-Version-Id); success -> Ok(X-Version-Id); 404 -> NoSuchVersion / no snapshot; X-Snapshot-Request urgency=low|high")
    consts = {"server::sync::HISTORY_SEGMENT_CONTENT_TYPE": "application/vnd.taskchampion.history-segment",
              "server::sync::SNAPSHOT_CONTENT_TYPE": "application/vnd.taskchampion.snapshot"}
    for k, v in consts.items():
        c = F.consts.get(k)
        got = (c or {}).get("val", "")
        if c is None:
            R.missing("P3", k)
        elif v not in str(got):
            R.violation("P3", k, "content-type", "%s = %s; documented %s" % (k.split("::")[-1], got, v), None)
        else:
            R.ok("P3", "%s = %s" % (k.split("::")[-1], v))
    ms = impl_methods(F)
    for m, doc in HTTP_DOC.items():
        b = ms.get(("http", m))
        if b is None:
            R.missing("P3", "HTTP Server::%s" % m)
            continue
        c = cfg_of(b)
        paths = [p for p in SymExec(b, c, max_paths=5000).run() if p.end[0] == "return"]
        w = where(b)
        # request shape (same on all paths that reach send)
        sent = [p for p in paths if any(e["callee"].endswith("RequestBuilder::send") for e in p.events)]
        if not sent:
            R.violation("P3", b["owner_fn"], "no-request", "%s sends no request" % m, w)
            continue
        p0 = sent[0]
        lits = set()
        for e in p0.events:
            for a in e["args"]:
                _has(a, lambda z: z[0] == "K" and lits.add(str(z[1])))
        verb = [e["callee"].split("::")[-1] for e in p0.events if re.search(r"reqwest::.*Client::(get|post|put|delete)$", e["callee"])]
        def _hname(v):
            if v[0] == "K":
                sv = str(v[1]).strip('"')
                if sv.endswith("header::CONTENT_TYPE"):
                    return "Content-Type"
                cst = F.consts.get(sv)
                if cst is not None:
                    # a crate constant naming the header: use its evaluated string
                    m_ = re.search(r'"([^"]*)"', str(cst.get("val", "")))
                    if m_:
                        return m_.group(1)
                    return str(cst.get("val", sv)).strip('"')
                return sv
            return show(v)
        headers = [(_hname(e["args"][1]), e["args"][2]) for e in p0.events if e["callee"].endswith("RequestBuilder::header")]
        urlok = any(doc["path"] in l for l in lits)
        problems = []
        if not urlok:
            problems.append("endpoint path %s not used" % doc["path"])
        if verb != [doc["verb"]]:
            problems.append("verb %s instead of %s" % (verb, doc["verb"]))
        hn = [h for h, _v in headers]
        if "X-Client-Id" not in hn:
            problems.append("no X-Client-Id header")
        else:
            hv = [v for h, v in headers if h == "X-Client-Id"][0]
            if not _has(hv, lambda z: z[0] == "F" and z[3] == "client_id"):
                problems.append("X-Client-Id is not the client id")
        if doc["ctype"]:
            ct = [v for h, v in headers if h == "Content-Type"]
            if not ct or ct[0] != ("K", doc["ctype"]):
                problems.append("Content-Type is %s" % (show(ct[0]) if ct else "missing"))
        if problems:
            R.violation("P3", b["owner_fn"], "request:%s" % m, "%s request deviates from docs/http.md: %s" % (m, "; ".join(problems)), w)
        else:
            R.ok("P3", "%s: %s %s headers %s" % (m, doc["verb"].upper(), doc["path"], hn), w)
        # response mapping
        if m == "add_version":
            okc = okk = False
            for p in paths:
                holder = []
                _has(p.ret, lambda z: z[0] == "A" and z[1].endswith("AddVersionResult") and holder.append(z))
                if not holder:
                    continue
                v = holder[0]
                conflict = _status_is(p.atoms, "CONFLICT", 409)
                hdr = None
                if v[3][0][1][0] == "F" or v[3][0][1][0] == "C":
                    hh = []
                    _has(v[3][0][1], lambda z: z[0] == "C" and z[2] == roles.uuid_header_fn(F) and hh.append(z))
                    hdr = str(hh[0][3][1][1]).strip('"') if hh else None
                if v[2] == "ExpectedParentVersion":
                    if conflict and hdr == "X-Parent-Version-Id":
                        okc = True
                    else:
                        problems.append("ExpectedParentVersion built from %s %s 409" % (hdr, "on" if conflict else "without"))
                elif v[2] == "Ok":
                    if not conflict and hdr == "X-Version-Id":
                        okk = True
                    else:
                        problems.append("Ok built from header %s" % hdr)
            if okc and okk and not problems:
                R.ok("P3", "add_version: 409 -> ExpectedParentVersion(X-Parent-Version-Id); success -> Ok(X-Version-Id)", w)
            else:
                R.violation("P3", b["owner_fn"], "response:add_version", "add_version response mapping: %s" % (problems or "incomplete"), w)
        if m in ("get_child_version", "get_snapshot"):
            nf = False
            for p in paths:
                is404 = _status_is(p.atoms, "NOT_FOUND", 404)
                empty = _has(p.ret, lambda z: z[0] == "A" and ((z[1].endswith("GetVersionResult") and z[2] == "NoSuchVersion") or (z[1].endswith("option::Option") and z[2] == "None")))
                if is404 and empty and p.ret[2] == "Ok":
                    nf = True
                if empty and p.ret[2] == "Ok" and not is404 and m == "get_child_version":
                    problems.append("NoSuchVersion without a 404")
            if nf and not problems:
                R.ok("P3", "%s: 404 -> %s" % (m, "NoSuchVersion" if m == "get_child_version" else "None"), w)
            else:
                R.violation("P3", b["owner_fn"], "response:%s" % m, "%s: 404 is not mapped to `%s` (%s)" % (m, "NoSuchVersion" if m == "get_child_version" else "None", problems), w)
    # snapshot urgency header table
    suf = roles.snapshot_urgency_header_fn(F)
    b = F.bodies.get(suf) if suf else None
    if b is None:
        R.missing("P3", "the HTTP helper (&Response) -> SnapshotUrgency")
        return
    rows = {}
    hdr = set()
    for p in SymExec(b, cfg_of(b)).run():
        if p.end[0] != "return" or p.ret[0] != "A":
            continue
        for e in p.events:
            if e["callee"].endswith("HeaderMap::<T>::get") or e["callee"].endswith("::get"):
                for a in e["args"]:
                    if a[0] == "K":
                        hdr.add(str(a[1]).strip('"'))
        trues = [str(a[2][1][1]).strip('"') for (a, o, _bb) in p.atoms if a[0] == "call" and a[1].endswith("PartialEq::eq") and o is True and a[2][1][0] == "K"]
        lits = []
        for (a, o, _bb) in p.atoms:
            _has(a, lambda z: z[0] == "K" and "urgency" in str(z[1]) and o is True and lits.append(str(z[1]).strip('"')))
        key = (trues or lits or ["(else)"])[0]
        rows.setdefault(key, set()).add(p.ret[2])
    want = {"urgency=low": {"Low"}, "urgency=high": {"High"}}
    good = all(rows.get(k) == v for k, v in want.items()) and all(v == {"None"} for k, v in rows.items() if k not in want) and "X-Snapshot-Request" in hdr
    if good:
        R.ok("P3", "X-Snapshot-Request: urgency=low -> Low, urgency=high -> High, otherwise None", where(b))
    else:
        R.violation("P3", b["path"], "urgency-table", "snapshot urgency header table is %s (header %s)" % ({k: sorted(v) for k, v in rows.items()}, sorted(hdr)), where(b))


def rule_A1_local(F, R):
    R.begin("A1", "local server add_version (accept path): exactly one SQLite transaction; the read of the latest id and both writes run on it; exactly one commit, after both writes; no helper opens or commits a transaction of its own")
    ms = impl_methods(F)
    b = ms.get(("local", "add_version"))
    if b is None:
        R.missing("A1", "local Server::add_version")
        return
    c = cfg_of(b)
    paths = [p for p in SymExec(b, c).run() if p.end[0] == "return"]
    n = 0
    helpers_seen = set()

    def opens_txn(e):
        if re.search(r"Connection>?::transaction(_with_behavior)?$", e["callee"]):
            return True
        hb = F.real_body(e["callee"]) if e["callee"] in F.bodies and e["callee"].startswith("server::local") else None
        return hb is not None and any(re.search(r"Connection>?::transaction(_with_behavior)?$", n_) for (_i, t_) in cfg_of(hb).calls() for n_ in call_names(t_)) and not is_write_event(F, "local", e) and "Transaction" in (hb.get("sig_out") or "")
    for p in paths:
        holder = []
        _has(p.ret, lambda z: z[0] == "A" and z[1].endswith("AddVersionResult") and z[2] == "Ok" and holder.append(z))
        if not holder:
            continue
        n += 1
        w = where(b, p.blocks[-1])
        tx = [e for e in p.events if opens_txn(e)]
        cm = [e for e in p.events if re.search(r"Transaction::<'.*>::commit$", e["callee"])]
        rd = []
        for e in p.events:
            hb = F.real_body(e["callee"]) if e["callee"] in F.bodies and e["callee"].startswith("server::local") else None
            if hb is not None and not is_write_event(F, "local", e) and any(re.search(r"^\s*SELECT", sv, re.I) for _i, sv in roles.sql_in_body(F, hb)):
                rd.append(e)
        wr = [e for e in p.events if is_write_event(F, "local", e)]
        helpers_seen.update(e["callee"] for e in rd + wr)
        if len(tx) != 1:
            R.violation("A1", b["owner_fn"], "transaction-count", "the accept path of the local add_version opens %d transactions: a stop between them leaves a parent with a child that is not the latest (a second child is then accepted)" % len(tx), w)
            continue
        on_txn = lambda e: _has(e["args"], lambda z: z[0] == "C" and z[1] == tx[0]["id"])
        if len(rd) != 1 or len(wr) != 2 or not all(on_txn(e) for e in rd + wr):
            R.violation("A1", b["owner_fn"], "statements-off-transaction", "the latest-id read and the two writes do not all run on the one transaction (read %d, writes %d)" % (len(rd), len(wr)), w)
            continue
        if len(cm) != 1 or not on_txn(cm[0]) or cm[0]["id"] < max(e["id"] for e in wr):
            R.violation("A1", b["owner_fn"], "commit", "the accept path commits %d time(s) / not after both writes" % len(cm), w)
            continue
        R.ok("A1", "accept path: txn -> read latest -> insert version -> set latest -> commit (one transaction)", w)
    R.floor("A1", "accept paths of the local add_version", n, 2)
    # helpers must not open/commit
    R.floor("A1", "statement helpers of the local add_version", len(helpers_seen), 3)
    for hname in sorted(helpers_seen):
        hb = F.bodies.get(hname)
        e_name = hname.split("::")[-1]
        if hb is None:
            continue
        bad = [n_ for (_i, t) in cfg_of(hb).calls() for n_ in call_names(t) if re.search(r"Transaction::<'.*>::commit$|Connection>?::transaction", n_)]
        if bad:
            R.violation("A1", hb["path"], "helper-transaction", "%s uses its own transaction (%s)" % (e_name, bad[0]), where(hb))
        else:
            R.ok("A1", "%s runs on the caller's transaction" % e_name, where(hb))


def rule_A1_drop(F, R):
    R.begin("A1d", "local server: a transaction that is dropped (an error, a stop between the two writes) rolls back: nothing in server::local changes rusqlite's drop behaviour, finishes a transaction implicitly, or opens an unchecked one")
    n = 0
    bad = 0
    for bp, b in F.bodies.items():
        if "server::local" not in bp:
            continue
        for (i, t) in F.calls_in.get(bp, ()):
            for n_ in call_names(t):
                if re.search(r"Connection>?::transaction(_with_behavior)?$", n_):
                    n += 1
                if re.search(r"set_drop_behavior|unchecked_transaction|Transaction::<'.*>::(new_unchecked|finish)$", n_):
                    bad += 1
                    R.violation("A1d", F.owner(bp), "drop-behaviour-changed", "%s is used in server::local: when the second statement of add_version fails, the dropped transaction commits the first (a stored version that is not the latest: every later push is out of sync)" % n_.split("::")[-1], where(b, i))
    if not bad:
        R.ok("A1d", "no set_drop_behavior / unchecked_transaction / finish in server::local", None)
    R.floor("A1d", "places in server::local that open a SQLite transaction (matcher control)", n, 1)


def rule_GI(F, R):
    R.begin("GI", "git add_version: the version file and meta are committed before the push, and AddVersionResult::Ok is returned only when push() returned true")
    ms = impl_methods(F)
    b = ms.get(("git", "add_version"))
    if b is None:
        R.missing("GI", "git Server::add_version")
        return
    paths = [p for p in SymExec(b, cfg_of(b)).run() if p.end[0] == "return"]
    n = 0
    for p in paths:
        holder = []
        _has(p.ret, lambda z: z[0] == "A" and z[1].endswith("AddVersionResult") and z[2] == "Ok" and holder.append(z))
        if not holder:
            continue
        n += 1
        w = where(b, p.blocks[-1])
        pushers = {roles.norm(x) for x in roles.git_cmd_fns(F, "push")}
        committers = {roles.norm(x) for x in roles.git_cmd_fns(F, "commit")}
        push = [e for e in p.events if roles.norm(e["callee"]) in pushers]
        commit = [e for e in p.events if roles.norm(e["callee"]) in committers]

        def _reaches(e, rx):
            return e["callee"] in F.bodies and e["callee"].startswith("server::gitsync") and roles.cone_reaches(F, e["callee"], lambda t: any(re.search(rx, n_) for n_ in call_names(t)))
        def write_commit_order(events, commit):
            wfile = [e for e in events if e not in commit and e not in push and _reaches(e, r"^std::fs::write$") and not _reaches(e, r"^serde_json::(ser::)?to_writer")]
            wmeta = [e for e in events if e not in commit and e not in push and e not in wfile and _reaches(e, r"^serde_json::(ser::)?to_writer") and not _reaches(e, r"^std::fs::write$")]
            if not (wfile and wmeta and commit and max(wfile[0]["id"], wmeta[0]["id"]) < commit[0]["id"]):
                return "order"
            if not (_has(commit[0]["args"], lambda z: z[0] == "C" and z[1] == wfile[0]["id"]) and _has(commit[0]["args"], lambda z: z[0] == "C" and z[1] == wmeta[0]["id"])):
                return "commit-content"
            return None

        # the three steps may sit in one helper of the backend: then they are checked inside it
        comp = [e for e in p.events if e not in commit and e not in push and _reaches(e, r"^std::fs::write$") and _reaches(e, r"^serde_json::(ser::)?to_writer") and roles.cone_reaches(F, e["callee"], lambda t: any(roles.norm(n_) in committers for n_ in call_names(t)))]
        pushed_true = any(a[0] == "val" and _has(a[1], lambda z: z[0] == "C" and push and z[1] == push[0]["id"]) and o is True for (a, o, _bb) in p.atoms)
        verdict = None
        if len(push) != 1 or not pushed_true:
            verdict = "ok-without-push"
        elif comp:
            hb = F.real_body(comp[0]["callee"])
            hp = [q for q in SymExec(hb, cfg_of(hb)).run() if q.end[0] == "return" and not (q.ret[0] == "A" and q.ret[2] == "Err") and not _has(q.ret, lambda z: z[0] == "F" and z[2] in ("Err", "Break"))]
            if not hp or comp[0]["id"] > push[0]["id"]:
                verdict = "order"
            for q in hp:
                hc = [e for e in q.events if roles.norm(e["callee"]) in committers]
                verdict = verdict or write_commit_order(q.events, hc)
        else:
            verdict = write_commit_order(p.events, commit)
            if verdict is None and not commit[0]["id"] < push[0]["id"]:
                verdict = "order"
        if verdict == "ok-without-push":
            R.violation("GI", b["owner_fn"], "ok-without-push", "AddVersionResult::Ok is returned on a path where push() did not return true: an acknowledged version that is not on the shared remote lets another replica give the same parent a second child", w)
        elif verdict == "order":
            R.violation("GI", b["owner_fn"], "order", "the accepted path is not: write version file, write meta, commit, push", w)
        elif verdict == "commit-content":
            R.violation("GI", b["owner_fn"], "commit-content", "the git commit does not contain both the version file and meta", w)
        else:
            R.ok("GI", "accept path: version file + meta -> commit -> push()==true -> Ok", w)
    R.floor("GI", "accept paths of the git add_version", n, 2)


def rule_K7(F, R):
    R.begin("K7", "object store: the uploaded version object is deleted inside add_version only when the compare-and-swap is known to have failed (returned Ok(false)); with an unknown outcome the object may already be named by the head")
    im, b = r_cloud.cloud_add_version(F)
    if b is None:
        R.missing("K7", "object-store add_version")
        return
    from tc.util import bool_origin, guards_of, switch_true_edges
    c = cfg_of(b)
    fl = flow_of(b)
    cas = calls_matching(c, re.escape(r_cloud.SERVICE) + "::compare_and_swap$")
    dels = calls_matching(c, re.escape(r_cloud.SERVICE) + "::del$")
    if not cas:
        R.missing("K7", "compare_and_swap in add_version")
        return
    for (i, t) in dels:
        ok = False
        for (s, labs) in guards_of(c, i):
            bo = bool_origin(fl, c.term(s)["o"])
            if bo and bo[0] in {k for k, _t in cas}:
                te = switch_true_edges(c, s, bo[2])
                on_true = all(l in [e[2] for e in te] for l in labs)
                if not on_true:
                    ok = True
        if ok:
            R.ok("K7", "version object deleted only on swap == false", where(b, i))
        else:
            R.violation("K7", b["owner_fn"], "object-deleted-on-unknown-swap-outcome", "Service::del at %s is not confined to the `compare_and_swap returned false` outcome: after a swap that was applied but reported as an error the head would name a deleted object" % loc(t["sp"]), where(b, i))
    if not dels:
        R.ok("K7", "add_version never deletes the uploaded object", where(b))


def rule_GC(F, R):
    R.begin("GC", "git backend: NoSuchVersion is answered only after the shared remote was consulted (reset_to_remote); opening a repository always removes stray files of an interrupted write")
    ms = impl_methods(F)
    b = ms.get(("git", "get_child_version"))
    if b is None:
        R.missing("GC", "git get_child_version")
    else:
        c = cfg_of(b)
        fetchers = {roles.norm(x) for x in roles.git_cmd_fns(F, "fetch")}
        rr = [(i, t) for i, t in c.calls() if any(_cone_has(F, n_, fetchers) for n_ in call_names(t))]
        sites = agg_sites(c, "GetVersionResult", "NoSuchVersion")
        if not sites or not rr:
            R.missing("GC", "NoSuchVersion construction / reset_to_remote call in git get_child_version")
        for (i, j, st) in sites:
            if any(c.dominates(k, i) for k, _t in rr):
                R.ok("GC", "NoSuchVersion only after reset_to_remote", where(b, sp=st["sp"]))
            else:
                R.violation("GC", b["owner_fn"], "no-such-version-from-local-state", "NoSuchVersion can be answered from the local clone's state without fetching the remote: a child pushed by another replica is reported as missing", where(b, sp=st["sp"]))
    cleaners = {roles.norm(x) for x in roles.git_cmd_fns(F, "clean")}
    ib = None
    for q in F.reachable_from(["server::gitsync::GitSyncServer::new"]):
        qb = F.bodies[q]
        if "gitsync" in q and roles.norm(F.owner(q)) not in cleaners and roles.norm(F.owner(q)) not in {roles.norm(x) for x in roles.git_cmd_fns(F, "fetch")}:
            if any(any(roles.norm(n_) in cleaners for n_ in call_names(t)) for (_i, t) in cfg_of(qb).calls()):
                ib = qb
    if ib is None:
        R.missing("GC", "the function on the open path of the git backend that removes stray files (`git clean`)")
        return
    c = cfg_of(ib)
    cl = [(i, t) for i, t in c.calls() if any(roles.norm(n_) in cleaners for n_ in call_names(t))]
    if not cl:
        R.violation("GC", ib["path"], "no-stray-file-clean", "init_repo does not remove stray files left by an interrupted write", where(ib))
        return
    oks = [(i, st) for (i, j, st) in agg_sites(c, "result::Result", "Ok") if st["l"]["l"] == 0]
    r = c.reachable(0, removed={i for i, _t in cl})
    bad = [i for (i, _st) in oks if i in r]
    if bad:
        R.violation("GC", ib["path"], "conditional-stray-file-clean", "a repository can be opened successfully without clean_stray_files having run: an untracked version file from an interrupted add-version stays visible as a child of the latest version", where(ib, bad[0]))
    else:
        R.ok("GC", "every successful open runs clean_stray_files", where(ib, cl[0][0]))


def _after_try(c, i):
    """entry of the continuation of call block i: when the call's result goes straight into
    `?`, the Continue arm of that `?` (the call's own failure is not part of what follows it);
    otherwise the call's normal successor"""
    t = c.term(i)
    succ = [j for (j, _lab) in c.succ[i]]
    if len(succ) != 1:
        return succ
    j = succ[0]
    tj = c.term(j)
    if tj and tj["k"] == "call" and "std::ops::Try::branch" in call_names(tj) and tj["args"] and (tj["args"][0].get("m") or tj["args"][0].get("c") or {}).get("l") == t["dest"]["l"]:
        sj = [k for (k, _lab) in c.succ[j]]
        if len(sj) == 1 and c.term(sj[0]) and c.term(sj[0])["k"] == "switch":
            cont = [k for (k, lab) in c.succ[sj[0]] if lab == "0"]
            if cont:
                return cont
    return succ


def rule_GC3(F, R):
    R.begin("GC3", "git backend: whenever a Server method has reset the clone to the shared remote's state (directly or through a helper), the cached `latest version` is reloaded before the method returns, on every path; otherwise a later add_version trusts a stale cache and accepts a version whose parent is no longer the latest")
    ms = impl_methods(F)
    mpaths = {m_["path"] for m_ in ms.values()}
    fetchers = {roles.norm(x) for x in roles.git_cmd_fns(F, "fetch")}
    # the meta reloader: a gitsync method taking &mut self whose cone reads JSON (from_reader) and does not fetch
    reloaders = set()
    helpers = {}
    for p, b in F.bodies.items():
        if "gitsync" not in p or b["kind"] not in ("AssocFn", "Fn") or p in mpaths or F.owner(p) != p:
            continue
        helpers[roles.norm(p)] = b
        si = b.get("sig_in") or []
        if not si or not si[0].startswith("&mut "):
            continue
        if roles.cone_reaches(F, p, lambda t: any(re.search(r"^serde_json::(de::)?from_reader", n) for n in call_names(t))) and not roles.cone_reaches(F, p, lambda t: any(roles.norm(n) in fetchers for n in call_names(t))):
            reloaders.add(roles.norm(p))
    if not fetchers or not reloaders:
        R.missing("GC3", "the git backend's fetch function / meta reload function")
        return

    def stale_returns(b, dirty):
        """(call block, callee) of calls to a `dirty` function after which b can return without a reload"""
        c = cfg_of(b)
        rl = {i for i, t in c.calls() if any(roles.norm(n_) in reloaders for n_ in call_names(t))}
        out, allc = [], []
        for (i, t) in c.calls():
            d = [roles.norm(n_) for n_ in call_names(t) if roles.norm(n_) in dirty]
            if not d:
                continue
            allc.append((i, t))
            r = set()
            for s in _after_try(c, i):
                if s not in rl:
                    r |= c.reachable(s, removed=rl)
            if any(k in r for k in c.exits()):
                out.append((i, t))
        return out, allc

    # helpers that can return with the clone reset and the cache not reloaded (fixpoint)
    dirty = set(fetchers)
    changed = True
    while changed:
        changed = False
        for p, b in helpers.items():
            if p in dirty or p in reloaders:
                continue
            # constructors build the cache afresh after their fetch: they are checked through the reloader role below
            if not (b.get("sig_in") or [""])[0].lstrip("&mut ").startswith("server::gitsync::GitSyncServer"):
                continue
            if stale_returns(b, dirty)[0]:
                dirty.add(p)
                changed = True
    R.info("GC3", "functions that can return with the clone reset to the remote and the cache not reloaded: %s" % ", ".join(sorted(dirty)))
    n = 0
    nfetch = 0
    for (be, name), b in sorted(ms.items()):
        if be != "git":
            continue
        nfetch += len([1 for (_i, t) in cfg_of(b).calls() if any(_cone_has(F, n_, fetchers) for n_ in call_names(t))])
        bad, allc = stale_returns(b, dirty)
        badi = {i for i, _t in bad}
        for (i, t) in allc:
            n += 1
            if i in badi:
                R.violation("GC3", b["owner_fn"], "fetch-without-meta-reload:" + roles.norm(t.get("callee") or "").split("::")[-1], "%s resets the clone to the remote at %s and can return without reloading the cached latest version: a later add_version on the now stale latest is accepted and gives that parent a second child" % (name, loc(t["sp"])), where(b, i))
            else:
                R.ok("GC3", "%s: reset-to-remote followed by meta reload on every path" % name, where(b, i))
    R.floor("GC3", "calls in the git backend's Server methods that reach the fetch", nfetch, 5)


def _result_arms(c, i):
    """(ok targets, err targets) of the first test of the Result returned by call block i:
    through `?` (Try::branch: Continue / Break) or a direct match on its discriminant"""
    t = c.term(i)
    d = t["dest"]["l"]
    j = i
    for _ in range(6):
        succ = [k for (k, _lab) in c.succ[j]]
        if len(succ) != 1:
            return None
        j = succ[0]
        tj = c.term(j)
        if tj is None:
            return None
        if tj["k"] == "call":
            if "std::ops::Try::branch" in call_names(tj) and tj["args"] and (op_place(tj["args"][0]) or {}).get("l") == d:
                sj = [k for (k, _lab) in c.succ[j]]
                if len(sj) == 1 and c.term(sj[0]) and c.term(sj[0])["k"] == "switch":
                    s = sj[0]
                    return ([k for (k, lab) in c.succ[s] if lab == "0"], [k for (k, lab) in c.succ[s] if lab != "0"])
            return None
        if tj["k"] == "switch":
            # direct match: the switch operand must be the discriminant of the call's destination
            ok_ = any(st["k"] == "assign" and st["r"]["k"] == "discr" and st["r"]["p"]["l"] == d for st in c.blocks[j]["s"])
            if not ok_:
                return None
            labs = c.succ[j]
            explicit = {lab for (_k, lab) in labs if lab not in ("otherwise",)}
            okt, ert = [], []
            for (k, lab) in labs:
                if lab == "0":
                    okt.append(k)
                elif lab == "1":
                    ert.append(k)
                elif lab == "otherwise":
                    if explicit == {"1"}:
                        okt.append(k)
                    elif explicit == {"0"}:
                        ert.append(k)
            return (okt, ert)
    return None


def rule_GC4(F, R):
    R.begin("GC4", "git backend, failed or interrupted add_version: (a) opening a repository goes back to the last commit (reset --hard) before the cached metadata is read, so a `meta` modified by an interrupted write is not believed; (b) when a step between writing the version file and the commit fails, add_version discards the uncommitted files and reloads the metadata before returning the error, so the failed version is neither served as a child nor named as the latest")
    hard = {roles.norm(x) for x in roles.git_cmd_fns(F, "--hard")}
    fetchers = {roles.norm(x) for x in roles.git_cmd_fns(F, "fetch")}
    discarders = hard - fetchers
    loaders = set()
    for p, b in F.bodies.items():
        if "gitsync" in p and b["kind"] in ("Fn", "AssocFn") and any(any(re.search(r"^serde_json::(de::)?from_reader", n) for n in call_names(t)) for (_i, t) in F.calls_in.get(p, ())) and "Meta" in (b.get("sig_out") or ""):
            loaders.add(roles.norm(p))
    # (a) the open path
    ib = None
    for q in F.reachable_from(["server::gitsync::GitSyncServer::new"]):
        qb = F.bodies[q]
        if "gitsync" in q and F.owner(q) == q and any(any(roles.norm(n_) in loaders for n_ in call_names(t)) for (_i, t) in cfg_of(qb).calls()) and (qb.get("sig_in") or [""])[0].find("&mut server::gitsync::GitSyncServer") < 0:
            ib = qb
    if ib is None or not loaders:
        R.missing("GC4", "the function on the open path of the git backend that loads the metadata file")
    else:
        c = cfg_of(ib)
        ld = [(i, t) for i, t in c.calls() if any(roles.norm(n_) in loaders for n_ in call_names(t))]
        dc = [i for i, t in c.calls() if any(_cone_has(F, n_, discarders | fetchers) for n_ in call_names(t))]
        for (i, t) in ld:
            if any(c.dominates(k, i) for k in dc):
                R.ok("GC4", "open: the working tree is reset to the last commit before meta is loaded", where(ib, i))
            else:
                R.violation("GC4", ib["path"], "open-trusts-uncommitted-meta", "opening a repository reads `meta` from the working tree without first going back to the last commit: after an add_version interrupted between writing meta and committing, the reopened backend names a latest version whose file was cleaned away, and every replica is out of sync for good", where(ib, i))
    # (b) the failure paths of add_version
    ms = impl_methods(F)
    b = ms.get(("git", "add_version"))
    if b is None:
        R.missing("GC4", "git add_version")
        return

    memo = {}

    def writes_tree(fn):
        fn = roles.norm(fn)
        if fn not in F.bodies or "gitsync" not in fn:
            return False
        return roles.cone_reaches(F, fn, lambda t: any(re.search(r"^std::fs::write$|std::fs::File::create|^serde_json::(ser::)?to_writer", n) for n in call_names(t))) or any(roles.norm(x) in {roles.norm(y) for y in roles.git_cmd_fns(F, "add")} for x in F.reachable_from([fn]))

    def commits(fn, depth=0):
        """every successful return of fn has passed `git commit`"""
        fn = roles.norm(fn)
        if fn in memo:
            return memo[fn]
        memo[fn] = False
        fb = F.real_body(fn) if fn in F.bodies else None
        if fb is None or "gitsync" not in fn or depth > 4:
            return False
        fc = cfg_of(fb)
        cm = set()
        for (i, t) in fc.calls():
            if any(a.get("k", {}).get("repr", "").strip('"') == "commit" for a in t["args"] if "k" in a) or any(commits(n, depth + 1) for n in call_names(t) if roles.norm(n) in F.bodies and roles.norm(n) != fn):
                cm.add(i)
        lits = "commit" in roles.body_literals(F, fb, depth=0)
        if lits and not cm:
            # the literal is in an argument array built separately: find the command call
            cm = {i for (i, t) in fc.calls() if any("Git::cmd" in n for n in call_names(t))}
        if not cm:
            return False
        r = fc.reachable(0, removed=cm | error_blocks(fc))
        res = not any(k in r for k in fc.exits())
        memo[fn] = res
        return res

    c = cfg_of(b)
    fl_b = flow_of(b)

    def direct_hard_reset(t):
        return any("--hard" in (sv or "") for a in t["args"] if ("c" in a or "m" in a) for sv in const_strs(fl_b.slice_operand(a, through_all_calls=False), F))
    callee_disc = discarders - {roles.norm(b["owner_fn"])}
    dsc = {i for i, t in c.calls() if any(_cone_has(F, n_, callee_disc) for n_ in call_names(t)) or direct_hard_reset(t)}
    rld = {i for i, t in c.calls() if any(roles.norm(n_).endswith("read_meta") or _cone_has(F, n_, loaders) for n_ in call_names(t))}
    n = 0
    for (i, t) in c.calls():
        names = [roles.norm(x) for x in call_names(t)]
        if not any(writes_tree(x) for x in names) or any(_cone_has(F, x, callee_disc | fetchers) for x in names) or i in dsc:
            continue
        n += 1
        arms = _result_arms(c, i)
        nm = names[0].split("::")[-1]
        if arms is None:
            R.violation("GC4", b["owner_fn"], "write-step-result-untested:" + nm, "the result of %s (a step that writes the working tree) is not tested" % nm, where(b, i))
            continue
        okt, ert = arms
        start = list(ert)
        if not any(commits(x) for x in names):
            start += list(okt)
        # a later step that commits ends the dirty region on its success arm
        cut_edges = set()
        for (j, tj) in c.calls():
            if any(commits(x) for x in call_names(tj)):
                a2 = _result_arms(c, j)
                if a2:
                    for k in a2[0]:
                        for (pk, lab) in [(pp, ll) for pp in c.reach for (kk, ll) in c.succ[pp] if kk == k]:
                            cut_edges.add((pk, k))
        bad = False
        for s in start:
            if s in dsc:
                continue
            r = c.reachable(s, removed=dsc, removed_edges=cut_edges)
            if any(k in r for k in c.exits()):
                bad = True
        if bad:
            R.violation("GC4", b["owner_fn"], "failed-add-leaves-uncommitted-files:" + nm, "after %s add_version can return with the version file or the changed meta still uncommitted in the working tree (and the cached latest already advanced): the same handle then serves the failed version as a child although it is not in the chain, and a reopened local repository names a latest version that does not exist" % nm, where(b, i))
        else:
            R.ok("GC4", "add_version: a failure after %s discards the uncommitted files" % nm, where(b, i))
    R.floor("GC4", "steps of git add_version that write the working tree", n, 1)
    # after discarding, the cached metadata is reloaded
    for i in dsc:
        r = set()
        for (s, _lab) in c.succ[i]:
            if s not in rld:
                r |= c.reachable(s, removed=rld)
        arms = _result_arms(c, i)
        later_q = {k for k in c.reach if c.term(k) and c.term(k)["k"] == "call" and any(x.endswith("FromResidual::from_residual") for x in call_names(c.term(k)))}
        if arms:
            r = set()
            for s in arms[0]:
                if s not in rld:
                    r |= c.reachable(s, removed=rld | later_q)
        if any(k in r for k in c.exits()):
            R.violation("GC4", b["owner_fn"], "discard-without-meta-reload", "add_version discards the uncommitted files but keeps the advanced cached latest version", where(b, i))
        else:
            R.ok("GC4", "add_version: discard followed by meta reload", where(b, i))


def _cone_has(F, fn, targets):
    fn = roles.norm(fn)
    if fn in targets:
        return True
    if fn not in F.bodies or "gitsync" not in fn:
        return False
    return any(roles.norm(x) in targets for x in F.reachable_from([fn]))


def rule_GS1(F, R):
    R.begin("GS1", "git backend: the key follows the salt. Whenever a method replaces the cached metadata (whose salt may be the one another replica pushed first), the cryptor is derived again from the new salt, unless the two salts were compared and found equal; otherwise this handle seals and opens with a key nobody else has")
    from tc.util import bool_origin, ref_base
    n = 0

    def field_assigns(b, c, name):
        out = []
        for i in sorted(c.reach):
            for st in c.blocks[i]["s"]:
                if st["k"] != "assign":
                    continue
                pr = [e for e in st["l"]["p"] if e != "deref"]
                if len(pr) == 1 and isinstance(pr[0], dict) and pr[0].get("n") == name and "GitSyncServer" in b["locals"][st["l"]["l"]]["ty"]:
                    out.append((i, st))
        return out

    for p, b in sorted(F.bodies.items()):
        if "gitsync" not in p or b["kind"] not in ("AssocFn", "Fn", "Closure") or not b.get("blocks"):
            continue
        c = cfg_of(b)
        sites = field_assigns(b, c, "meta")
        if not sites:
            continue
        fl = flow_of(b)
        loaders = lambda t: not any(x.endswith("Cryptor::new") for x in call_names(t))   # every other call is a source
        cry = {i for (i, st) in field_assigns(b, c, "cryptor") if st["r"]["k"] == "use" and fl.slice_operand(st["r"]["o"]).has_call(r"Cryptor::new$")}
        for (i, st) in sites:
            n += 1
            src_local = op_place(st["r"]["o"])["l"] if st["r"]["k"] == "use" and op_place(st["r"]["o"]) else None
            newmeta = fl.slice_operand(st["r"]["o"], stop=loaders) if st["r"]["k"] == "use" else None
            srcs = {r[1] for r in newmeta.roots if r[0] == "call"} if newmeta else set()
            derived = False
            for (kk, tt) in c.calls():
                if any(x.endswith("Cryptor::new") for x in call_names(tt)) and any(c.dominates(kk, k) for k in cry):
                    ss = fl.slice_operand(tt["args"][0], stop=loaders)
                    if srcs and {r[1] for r in ss.roots if r[0] == "call"} >= srcs and not ss.params():
                        derived = True
            # edges on which the new and the cached salt are known to be equal
            eq_edges = set()
            for s in sorted(c.reach):
                t = c.term(s)
                if not t or t["k"] != "switch":
                    continue
                bo = bool_origin(fl, t["o"])
                if not bo or not any(re.search(r"PartialEq::(eq|ne)$", x) for x in call_names(bo[1])) or len(bo[1]["args"]) != 2:
                    continue
                bases = [ref_base(fl, a) for a in bo[1]["args"]]
                sides = set()
                for bl_ in bases:
                    if bl_ is None:
                        continue
                    if bl_ == 1 or (b["locals"][bl_].get("name") == "self"):
                        sides.add("cached")
                    else:
                        sl_ = fl.slice_local(bl_, stop=loaders)
                        if srcs and {r[1] for r in sl_.roots if r[0] == "call"} >= srcs and not sl_.params():
                            sides.add("new")
                if sides != {"cached", "new"}:
                    continue
                is_ne = any(x.endswith("PartialEq::ne") for x in call_names(bo[1]))
                for (j, lab) in c.succ[s]:
                    val = (lab != "0") != bool(bo[2])      # value of the eq/ne call on this edge
                    if ((not val) if is_ne else val):
                        eq_edges.add((s, j))
            r = c.reachable(0, removed=cry, removed_edges=eq_edges)
            if not derived or i in r:
                R.violation("GS1", F.owner(p), "meta-replaced-key-kept", "the cached metadata is replaced (a salt pushed by another replica may come with it) but the cryptor keeps the key derived from the old salt: versions written by the replica that initialised the remote first cannot be opened by this handle, and what it seals nobody else can open", where(b, i))
            else:
                R.ok("GS1", "metadata replaced: key derived again from the new salt unless the salts are equal", where(b, i))
    R.floor("GS1", "places where the git backend replaces its cached metadata", n, 1)


def _git_commits_fn(F):
    memo = {}

    def commits(fn, depth=0):
        """every successful return of fn has passed `git commit`"""
        fn = roles.norm(fn)
        if fn in memo:
            return memo[fn]
        memo[fn] = False
        fb = F.real_body(fn) if fn in F.bodies else None
        if fb is None or "gitsync" not in fn or depth > 4:
            return False
        fc = cfg_of(fb)
        cm = set()
        for (i, t) in fc.calls():
            if any(a.get("k", {}).get("repr", "").strip('"') == "commit" for a in t["args"] if "k" in a) or any(commits(n, depth + 1) for n in call_names(t) if roles.norm(n) in F.bodies and roles.norm(n) != fn):
                cm.add(i)
        if "commit" in roles.body_literals(F, fb, depth=0) and not cm:
            cm = {i for (i, t) in fc.calls() if any("Git::cmd" in n for n in call_names(t))}
        if not cm:
            return False
        r = fc.reachable(0, removed=cm | error_blocks(fc))
        res = not any(k in r for k in fc.exits())
        memo[fn] = res
        return res
    return commits


def rule_GC5(F, R):
    R.begin("GC5", "git backend with a remote: the clone is never left ahead of the remote. (a) in add_version every way out after a successful commit has either seen push() return true or has undone the commit (reset HEAD~1); (b) opening a repository reconciles the clone with the remote before anything is served from it. Otherwise get_child_version serves the unpushed version from the local files to the replica whose push was interrupted: it drops its pending operations as already synchronised, the next fetch wipes the version, and the operations never reach the server")
    from tc.util import bool_origin, switch_true_edges
    ms = impl_methods(F)
    b = ms.get(("git", "add_version"))
    if b is None:
        R.missing("GC5", "git add_version")
        return
    commits = _git_commits_fn(F)
    c = cfg_of(b)
    fl = flow_of(b)
    pushers = {roles.norm(x) for x in roles.git_cmd_fns(F, "push")}
    cm = [(i, t) for (i, t) in c.calls() if any(commits(x) for x in call_names(t))]
    pu = [(i, t) for (i, t) in c.calls() if any(roles.norm(x) in pushers for x in call_names(t))]
    undo = {i for (i, t) in c.calls() if any("HEAD~1" in (sv or "") for a in t["args"] if ("c" in a or "m" in a) for sv in const_strs(fl.slice_operand(a, through_all_calls=False), F))}
    if not cm or not pu:
        R.missing("GC5", "the commit step / the push step of git add_version")
        return
    push_true = set()
    for s in sorted(c.reach):
        t = c.term(s)
        if t and t["k"] == "switch":
            bo = bool_origin(fl, t["o"])
            if bo and bo[0] in {i for i, _t in pu}:
                for (s_, j, lab) in switch_true_edges(c, s, bo[2]):
                    push_true.add((s_, j))
    for (i, t) in cm:
        arms = _result_arms(c, i)
        if arms is None:
            R.violation("GC5", b["owner_fn"], "commit-result-untested", "the result of the commit step is not tested", where(b, i))
            continue
        r = set()
        for s in arms[0]:
            r |= c.reachable(s, removed=undo, removed_edges=push_true)
        bad = [k for k in c.exits() if k in r]
        if bad:
            R.violation("GC5", b["owner_fn"], "unpushed-commit-left-behind", "after the commit, add_version can return without push() having returned true and without undoing the commit (the error path of `push()?`: the git binary could not be started): the clone is ahead of the remote and serves the unpushed version", where(b, i))
        else:
            R.ok("GC5", "add_version: after the commit, every way out has pushed or undone it", where(b, i))
    # (b) open path
    fetchers = {roles.norm(x) for x in roles.git_cmd_fns(F, "fetch")}
    cone = {roles.norm(x) for x in F.reachable_from(["server::gitsync::GitSyncServer::new"])}
    nb = F.bodies.get("server::gitsync::GitSyncServer::new")
    if nb is None:
        R.missing("GC5", "GitSyncServer::new")
    elif cone & fetchers:
        R.ok("GC5", "opening a repository consults the remote", where(nb))
    else:
        R.violation("GC5", "server::gitsync::GitSyncServer::new", "open-keeps-unpushed-commit", "opening a repository with a remote never compares the clone with the remote: a commit made by an add_version that stopped before its push stays, and its version is served from the local files", where(nb))


def rule_P4(F, R):
    R.begin("P4", "every backend implements every method of the Server interface: each of the four methods of each backend has a path that returns (a method whose every path ends in a panic is an interface hole: any caller holding a `dyn Server` can reach it)")
    ms = impl_methods(F)
    n = 0
    for (be, name), b in sorted(ms.items()):
        n += 1
        c = cfg_of(b)
        # feasible paths (constant tests such as async_trait's `if let Some(r) = None` are decided)
        try:
            rets = [p for p in SymExec(b, c, max_paths=3000).run() if p.end[0] == "return"]
        except Exception:
            rets = c.exits()
        if rets:
            R.ok("P4", "%s %s can return" % (be, name), where(b))
        else:
            R.violation("P4", b["owner_fn"], "method-never-returns", "the %s backend's %s has no returning path (every path ends in a panic): calling it through the public Server interface aborts the caller" % (be, name), where(b))
    R.floor("P4", "Server methods across the backends", n, 16)


def rule_P5(F, R):
    R.begin("P5", "the local server keeps no chain state in the handle: LocalServer holds its SQLite connection and nothing about versions. The acceptance test must read the latest version inside the transaction of the add; a value remembered from an earlier call is stale as soon as another handle on the same directory adds a version, and the compare-and-set is gone")
    adt = None
    for k, a in F.adts.items():
        if k.startswith("server::local::LocalServer"):
            adt = (k, a)
    if adt is None:
        R.missing("P5", "struct server::local::LocalServer")
        return
    k, a = adt
    bad = [(f["name"], f["ty"]) for f in a["variants"][0]["fields"] if not re.search(r"^rusqlite::Connection$", f["ty"])]
    if bad:
        R.violation("P5", k, "chain-state-in-handle:%s" % bad[0][0], "LocalServer keeps `%s: %s` between calls: a second handle on the same directory changes the chain without this one noticing" % bad[0], loc(a["sp"]))
    else:
        R.ok("P5", "LocalServer fields: %s" % [f["name"] for f in a["variants"][0]["fields"]], loc(a["sp"]))


def _avr_helper_variants(F, callee):
    """AddVersionResult variants constructed by a crate-local helper of the git backend (a helper that only packages
    the answer, e.g. `fn expected_parent_version(&self) -> (AddVersionResult, SnapshotUrgency)`)"""
    hb = F.bodies.get(callee) or F.bodies.get(re.sub(r"::<[^>]*>", "", callee or ""))
    if hb is None or "gitsync" not in (callee or "") or not hb.get("blocks"):
        return set()
    out = set()
    for bl in hb["blocks"]:
        for st in bl["s"]:
            if st["k"] == "assign" and st["r"]["k"] == "agg" and str(st["r"].get("adt", "")).endswith("AddVersionResult"):
                out.add(st["r"]["variant"])
    return out


def rule_GC6(F, R):
    R.begin("GC6", "git backend: a rejection (ExpectedParentVersion) names the latest version of the shared remote, not of this clone's cache: every rejection in add_version is preceded by a fetch of the remote and a reload of the metadata. A rejection from the cache alone refuses a version whose parent is the true latest (pushed by another clone) and names a stale id")
    ms = impl_methods(F)
    b = ms.get(("git", "add_version"))
    if b is None:
        R.missing("GC6", "git add_version")
        return
    c = cfg_of(b)
    fetchers = {roles.norm(x) for x in roles.git_cmd_fns(F, "fetch")}
    fetch_calls = [i for i, t in c.calls() if any(_cone_has(F, n_, fetchers) for n_ in call_names(t))]
    sites = agg_sites(c, "AddVersionResult", "ExpectedParentVersion")
    # the answer may be packaged by a helper: its call site stands for the construction
    for (i_, t_) in c.calls():
        if any(_avr_helper_variants(F, n_) == {"ExpectedParentVersion"} for n_ in call_names(t_)):
            sites.append((i_, 0, {"sp": t_["sp"]}))
    if not R.floor("GC6", "ExpectedParentVersion constructions in git add_version", len(sites), 1):
        return
    for (i, j, st) in sites:
        if any(c.dominates(k, i) for k in fetch_calls):
            R.ok("GC6", "rejection only after the remote was fetched", where(b, sp=st["sp"]))
        else:
            R.violation("GC6", b["owner_fn"], "rejection-from-cached-latest", "add_version can answer ExpectedParentVersion from the cached latest version without fetching the remote: a version whose parent is the remote's true latest is refused, and the id named is stale", where(b, sp=st["sp"]))


def rule_GS2(F, R):
    R.begin("GS2", "git backend: what is written was sealed with the key in force at the time of writing. In every Server method, no metadata reload (which may replace the key when the remote carries another salt) lies between sealing a value and writing it to the working tree")
    ms = impl_methods(F)
    reloaders = set()
    for p, b in F.bodies.items():
        if "gitsync" in p and b["kind"] == "AssocFn" and (b.get("sig_in") or [""])[0].startswith("&mut ") and F.owner(p) == p:
            if any(st["k"] == "assign" and [e for e in st["l"]["p"] if isinstance(e, dict) and e.get("n") == "cryptor"] for bl in b["blocks"] for st in bl["s"]):
                reloaders.add(roles.norm(p))
    if not reloaders:
        R.missing("GS2", "the git function that replaces the cryptor")
        return
    SINK = re.compile(r"^std::fs::write$|^serde_json::(ser::)?to_writer|std::io::Write::write_all$")
    n = 0
    # every function of the git backend that seals: the Server methods and the helpers they delegate the sealing to
    subjects = [(name, b) for (be, name), b in sorted(ms.items()) if be == "git"]
    have = {b["path"] for (_n, b) in subjects}
    for p_, b_ in sorted(F.bodies.items()):
        if "gitsync" in p_ and b_["kind"] in ("AssocFn", "Fn") and F.owner(p_) == p_:
            rb_ = F.real_body(p_) or b_
            if rb_["path"] not in have and any(any(x.endswith("Cryptor::seal") for x in call_names(t)) for (_i, t) in cfg_of(rb_).calls()):
                subjects.append((p_.split("::")[-1], rb_))
                have.add(rb_["path"])
    for (name, b) in subjects:
        c = cfg_of(b)
        fl = flow_of(b)
        seals = [(i, t) for (i, t) in c.calls() if any(x.endswith("Cryptor::seal") for x in call_names(t))]
        rl = [i for (i, t) in c.calls() if any(_cone_has(F, x, reloaders) for x in call_names(t))]
        sinks = [(i, t) for (i, t) in c.calls() if any(SINK.search(x) for x in call_names(t))]
        for (si, stt) in seals:
            n += 1
            bad = None
            for (ki, kt) in sinks:
                derived = any(fl.slice_operand(a).calls.get(si) is not None for a in kt["args"] if ("c" in a or "m" in a))
                if not derived:
                    continue
                for r in rl:
                    if r in c.reachable_after(si) and ki in c.reachable_after(r):
                        bad = (r, ki)
            if bad:
                R.violation("GS2", b["owner_fn"], "sealed-before-key-reload", "%s seals a value at %s, then reloads the metadata at %s (which re-derives the key when the remote's salt differs) and writes the value sealed under the old key at %s: nobody holding the stored salt can open it" % (name, loc(stt["sp"]), loc(c.term(bad[0])["sp"]), loc(c.term(bad[1])["sp"])), where(b, si))
            else:
                R.ok("GS2", "%s: nothing reloads the key between sealing and writing" % name, where(b, si))
    R.floor("GS2", "seal sites in the git backend (Server methods and their helpers)", n, 1)


def rule_GK1(F, R):
    R.begin("GK1", "git cleanup removes a version file only if the version it *contains* (the child id, the key of the versions map) is covered by the snapshot; testing the parent id instead also removes the first version after the snapshot, and a replica based on the snapshot's version can no longer fetch its child")
    target = None
    for p, b in F.bodies.items():
        if "gitsync" in p and b["kind"] == "AssocFn" and any("HashSet<uuid::Uuid>" in x for x in (b.get("sig_in") or [])) and any("HashMap<uuid::Uuid" in x for x in (b.get("sig_in") or [])):
            target = b
    if target is None:
        R.missing("GK1", "the git function that removes the version files covered by a snapshot (takes the versions map and the covered set)")
        return
    c = cfg_of(target)
    fl = flow_of(target)
    n = 0
    for (i, t) in c.calls():
        if not any(re.search(r"HashSet::<T, S, A>::contains$", x) for x in call_names(t)):
            continue
        n += 1
        sl = fl.slice_operand(t["args"][1])
        nexts = [r for r in sl.roots if r[0] in ("call", "callnode") and r[2].endswith("Iterator::next")]
        via_values = any(re.search(r"HashMap::<K, V, S, A>::(values|into_values|values_mut)$|::map$", x) for x in sl.call_names())
        key_proj = bool(nexts) and all(len(r[3]) >= 2 and r[3][0] == ("dc", "Some") and r[3][1][0] == "f" and r[3][1][1] == 0 for r in nexts)
        if via_values or not key_proj:
            R.violation("GK1", target["path"], "covered-test-not-on-child-id", "the id tested against the covered set is not the key of the versions map (the child id): with the parent id, the version that follows the snapshot's version is removed as well", where(target, i))
        else:
            R.ok("GK1", "the covered test is on the child id (the map key)", where(target, i))
    R.floor("GK1", "membership tests against the covered set", n, 1)
